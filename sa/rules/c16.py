"""C16 - vector-equation rearrangement is equivalence preserving (E3 + E4)."""
from __future__ import annotations

import ast
import itertools

from ..core import Run, AnalysisError, dotted, norm
from ..alg import T, num, var, op, fun, normalize, same, substitute, C
from ..pyreader import PyReader, Raised, _Return
from ..dim import World
from ..flow import Fn, node_calls, conditions_for, stmt_of

EXPLANATION = (
    "solve_for_vector is evaluated abstractly AS A WHOLE (sa/pyreader.py; the input is a list of (vector, coefficient) terms - what "
    "into_terms / split_factor are assumed to deliver - helpers living in the vectors module are followed): Q1 a non-vector expression "
    "and an unknown that is not a term end in a raise; Q3 for every length N = 1..4 of the linear combination and every position of the "
    "unknown, for a vector occurring in several terms ((x + y)*a - b), and for Eq inputs with vectors on both sides, with generic "
    "vectors and coefficients, the returned equation satisfies lhs - rhs = expr / scale (factor reduction on; scale = the coefficient of "
    "a term of the unknown) and lhs - rhs = -expr (off) exactly - so it is equivalent to the input for all coefficients; Q2 apply wraps "
    "both sides of the equation with the same function and keeps the sides; Q4 solve_for_scalar pairs each solved symbol with its own solution and never switches off "
    "SymPy's verification of candidate solutions; Q5 is_vector_expr refuses a product of two or more vectors (no early `return True` inside the loop over the factors). Not decided: SymPy's solver, "
    "vector_equals (runs simplify), and the term splitting helpers.")
ASSUMPTIONS = ["into_terms / split_factor return the (vector, coefficient) decomposition of the expression (C14's undecided part)",
               "vector symbols are treated as commuting indeterminates of a free module (all operations used are linear)"]
TRUSTED = ["sympy.solve", "python ast", "sa/pyreader.py abstract evaluator"]

MOD = "symplyphysics.core.experimental.solvers"


def check(run: Run) -> None:
    run.rule("Q1", "a non-vector input and an unknown that is not among the terms are refused (an exception, no equation)")
    run.rule("Q2", "apply wraps both sides with the same function")
    run.rule("Q3", "solve_for_vector evaluated as a whole: the returned equation satisfies lhs - rhs = expr/scale (reduce_factor) or -expr, for every length and "
             "position of the unknown, for vectors occurring in several terms, and for Eq inputs (lhs - rhs)")
    run.rule("Q4", "solve_for_scalar returns Eq(symbol, its solution) for every solved symbol and never disables SymPy's verification of solutions")
    run.rule("Q5", "is_vector_expr, evaluated on a table of small expressions, accepts linear combinations of vectors with scalar coefficients and refuses products and powers of "
             "vectors, vectors in denominators and expressions without a vector")
    w = World(run.src)
    mod = run.src.need(MOD)
    f = Fn(w, MOD, "solve_for_vector")
    # ---- Q1 / Q3: solve_for_vector evaluated as a whole (whatever the shape of its code)
    _solve_for_vector(run, mod, f)
    # ---- Q2
    _q2(run, mod)
    # ---- Q4: solve_for_scalar evaluated abstractly against a stand-in for sympy.solve
    _q4(run, mod)
    # ---- Q5: is_vector_expr evaluated abstractly on a table of small expressions
    _q5(run)


class _VE:
    """a vector expression seen as a list of (vector, scalar coefficient) terms - what into_terms / split_factor return"""

    def __init__(self, terms: list):
        self.terms = list(terms)


class _VEq:

    def __init__(self, lhs: _VE, rhs: _VE):
        self.lhs, self.rhs = lhs, rhs


class _Dot:
    """a bare dot product dot(u, w): a SCALAR expression, no equation - although VectorDot names its operands .lhs and .rhs"""

    def __init__(self, lhs: _VE, rhs: _VE):
        self.lhs, self.rhs = lhs, rhs


def _addends(t: T) -> list:
    if t.op == "add":
        return _addends(t.args[0]) + _addends(t.args[1])
    if t.op == "sub":
        return _addends(t.args[0]) + [op("neg", x) for x in _addends(t.args[1])]
    if t.op == "num" and t.val == 0:
        return []
    return [t]


def _factors(t: T) -> list:
    if t.op == "mul":
        return _factors(t.args[0]) + _factors(t.args[1])
    if t.op == "neg":
        return [num(-1)] + _factors(t.args[0])
    if t.op == "div":
        return _factors(t.args[0]) + [op("div", num(1), t.args[1])]
    return [t]


def _is_vec(t) -> bool:
    return isinstance(t, T) and t.op == "var" and str(t.val).startswith("v")


def _mentions(t, x: T) -> bool:
    if not isinstance(t, T):
        return False
    if t == x:
        return True
    if t.op == "fun":
        return x.op == "var" and x.val in t.val[1]
    return any(_mentions(a, x) for a in t.args)


def _terms_of(t: T) -> list:
    """(vector, coefficient) pairs of a term that is a sum of products with exactly one vector factor each"""
    out = []
    for addend in _addends(t):
        fs = _factors(addend)
        vs = [f_ for f_ in fs if _is_vec(f_)]
        if len(vs) != 1:
            return []
        c = num(1)
        for f_ in fs:
            if f_ is not vs[0] and not (_is_vec(f_) and f_ == vs[0] and False):
                if f_ == vs[0] and _is_vec(f_):
                    continue
                c = op("mul", c, f_)
        out.append((vs[0], c))
    return out


def _solve_for_vector(run: Run, mod, f) -> None:
    vm = run.src.need("symplyphysics.core.experimental.vectors")
    vfuncs = {x.name: x for x in vm.tree.body if isinstance(x, ast.FunctionDef)}

    class R(PyReader):

        def hook_attr(self, base, attr, n):
            if isinstance(base, (_VEq, _Dot)) and attr in ("lhs", "rhs"):
                return getattr(base, attr)
            return NotImplemented

        def has_attr(self, obj, name):
            if name in ("lhs", "rhs"):
                return isinstance(obj, (_VEq, _Dot))  # equations - and VectorDot, whose operands carry the same names; sums, multiples and symbols have neither
            return None

        def hook_method(self, base, attr, args, kwargs, n):
            if attr == "coeff" and isinstance(base, T) and args and isinstance(args[0], T):
                # sympy Expr.coeff(x, n) over the top-level sum: n = 1 -> cofactors of the addends that have x as a factor;
                # n = 0 -> the addends in which x does not occur AT ALL (not even inside a coefficient)
                order = args[1] if len(args) > 1 else 1
                x = args[0]
                acc = num(0)
                for addend in _addends(base):
                    fs = _factors(addend)
                    if order == 0:
                        if not _mentions(addend, x):
                            acc = op("add", acc, addend)
                    elif order == 1 and sum(1 for f_ in fs if f_ == x) == 1:
                        rest = num(1)
                        for f_ in fs:
                            if f_ != x:
                                rest = op("mul", rest, f_)
                        acc = op("add", acc, rest)
                return acc
            return NotImplemented

        def hook_binop(self, o, l, r, n):
            if isinstance(l, _VE) and isinstance(r, _VE) and isinstance(o, (ast.Sub, ast.Add)):
                return _VE(l.terms + [(v, op("neg", c) if isinstance(o, ast.Sub) else c) for v, c in r.terms])
            def zero_(x):
                return (isinstance(x, int) and not isinstance(x, bool) and x == 0) or (isinstance(x, T) and x.op == "num" and x.val == 0)
            if isinstance(l, _VE) and zero_(r) and isinstance(o, (ast.Sub, ast.Add)):
                return l
            if isinstance(l, _VE) or isinstance(r, _VE):
                self.fail(n, "arithmetic on the input expression other than lhs - rhs")
            return NotImplemented

        def hook_call(self, n, env, fns):
            name = dotted(n.func) or ""
            if name == "isinstance" and len(n.args) == 2 and dotted(n.args[1]) in ("Eq", "Equality", "Relational"):
                return isinstance(self.ev(n.args[0], env, fns), _VEq)
            if name == "is_vector_expr" and len(n.args) == 1:
                v = self.ev(n.args[0], env, fns)
                return isinstance(v, _VE) or (isinstance(v, T) and bool(_terms_of(v)))  # False for scalars, a bare _Dot included
            if name == "into_terms" and len(n.args) == 1:
                v = self.ev(n.args[0], env, fns)
                if isinstance(v, T):
                    v = _VE(_terms_of(v))
                if not isinstance(v, _VE):
                    raise Raised("ValueError", getattr(n, "lineno", 0))  # _check_vector (a scalar, a bare dot product)
                return [op("mul", b, a) for a, b in v.terms]
            if name == "split_factor" and len(n.args) == 1:
                v = self.ev(n.args[0], env, fns)
                if isinstance(v, T):
                    tt = _terms_of(v)
                    if len(tt) == 1:
                        return [tt[0][0], tt[0][1]]
                    if len(tt) > 1:
                        return [v, num(1)]  # a sum is returned unchanged with factor 1
                    raise Raised("ValueError", getattr(n, "lineno", 0))  # not a vector expression
                self.fail(n, "split_factor of something that is not a term")
            if name == "vector_equals" and len(n.args) == 2:
                a, b = self.ev(n.args[0], env, fns), self.ev(n.args[1], env, fns)
                # equal after simplification: the same term, or the same vector written differently (f(k*(t - x)) against f(k*t - k*x))
                return isinstance(a, T) and isinstance(b, T) and (a == b or {a, b} == {var("v0"), var("v0_rewritten")})
            if isinstance(n.func, ast.Name) and name not in self.functions and name not in fns and name in vfuncs:
                # a helper that lives in the vectors module: evaluated there, with the same primitives
                sub = R(vm.tree, "vectors/__init__.py")
                args = [self.ev(a, env, fns) for a in n.args]
                return sub.call(name, args, {k.arg: self.ev(k.value, env, fns) for k in n.keywords if k.arg})
            return NotImplemented

    def total(terms):
        acc = num(0)
        for v, c in terms:
            acc = op("add", acc, op("mul", v, c))
        return acc

    def run_case(label, expr_obj, terms, atomic, reduce_factor):
        rd = R(mod.tree, "solve_for_vector")
        try:
            res = rd.call("solve_for_vector", [expr_obj, atomic, reduce_factor])
        except Raised as r:
            res = r
        return res

    top = 8 if run.tier == "thorough" else 5
    cases = []
    for N in range(1, top):
        for i in range(N):
            terms = [(var(f"v{k}"), var(f"s{k}")) for k in range(N)]
            cases.append((f"N={N},i={i}", _VE(terms), terms, var(f"v{i}")))
    # the unknown (and another vector) occurring in several terms, e.g. (x + y)*a - b
    rep = [(var("v0"), var("s0")), (var("v1"), var("s1")), (var("v0"), var("s2")), (var("v1"), var("s3"))]
    cases.append(("repeated-vector,unknown=v0", _VE(rep), rep, var("v0")))
    cases.append(("repeated-vector,unknown=v1", _VE(rep), rep, var("v1")))
    # an equation as input: vectors on both sides
    lhs, rhs = [(var("v0"), var("s0")), (var("v1"), var("s1"))], [(var("v0"), var("s2")), (var("v2"), var("s3"))]
    eq_terms = lhs + [(v, op("neg", c)) for v, c in rhs]
    cases.append(("Eq-input,unknown=v0", _VEq(_VE(lhs), _VE(rhs)), eq_terms, var("v0")))
    cases.append(("Eq-input,unknown=v2", _VEq(_VE(lhs), _VE(rhs)), eq_terms, var("v2")))
    # a coefficient that depends on the unknown (x*a + b*dot(a, c) + c solved for a): only the term whose VECTOR is the unknown moves
    dep = [(var("v0"), var("s0")), (var("v1"), fun("g", ("v0", ))), (var("v2"), var("s2"))]
    cases.append(("coefficient-mentions-unknown,unknown=v0", _VE(dep), dep, var("v0")))
    # the unknown occurs in the expression in another written form (into_terms expands the arguments of an applied vector function):
    # vector_equals recognises it, a structural comparison does not
    rew = [(var("v0"), var("s0")), (var("v1"), var("s1")), (var("v2"), var("s2"))]
    for k in range(3):
        shown = [(var("v0_rewritten") if v == var("v0") else v, c) for v, c in rew[k:] + rew[:k]]
        cases.append((f"unknown-written-differently,position={(3 - k) % 3}", _VE(shown), rew[k:] + rew[:k], var("v0")))
    for label, obj, terms, atomic in cases:
        for reduce_factor in (True, False):
            run.ob("Q3", f"{label},reduce={reduce_factor}")
            res = run_case(label, obj, terms, atomic, reduce_factor)
            if "written-differently" in label and isinstance(res, tuple) and res and res[0] == "eq":
                res = (res[0], substitute(res[1], {"v0_rewritten": var("v0")}), substitute(res[2], {"v0_rewritten": var("v0")})) + tuple(res[3:])
            if not (isinstance(res, tuple) and res and res[0] == "eq"):
                run.violate("Q3", f"{MOD}:solve_for_vector:result:{label},reduce={reduce_factor}", f.mod, f.fn,
                            f"{label}: no equation is returned ({'raises ' + res.exc if isinstance(res, Raised) else repr(res)[:80]})")
                continue
            diff = normalize(op("sub", res[1], res[2]))
            expr = total(terms)
            if reduce_factor:
                own = [c for v, c in terms if v == atomic]
                wants = [normalize(op("div", expr, c)) for c in own]
                if len(own) > 1:
                    # the unknown in several terms: dividing by its gathered coefficient is an equivalent equation as well (and the only one that is a solution)
                    tot = own[0]
                    for c in own[1:]:
                        tot = op("add", tot, c)
                    wants.append(normalize(op("div", expr, tot)))
            else:
                wants = [normalize(op("neg", expr))]
            if not any(same(diff, w_) for w_ in wants):
                run.violate("Q3", f"{MOD}:solve_for_vector:formula:{'repeated' if 'repeated' in label else ('eq' if 'Eq' in label else ('rewritten' if 'written' in label else 'plain'))}:reduce={reduce_factor}", f.mod, f.fn,
                            f"{label}, reduce_factor={reduce_factor}: lhs - rhs = {diff!r}; equivalence with the input requires {wants[0]!r}"
                            + (" (a term of the input was dropped or counted twice)" if "repeated" in label or "Eq" in label else ""))
            elif label == "N=3,i=1":
                run.sample({"case": label, "reduce_factor": reduce_factor, "lhs": repr(normalize(res[1])), "rhs": repr(normalize(res[2]))})
    # a request for a multiple of a term's vector (-a, 2*a) is outside the stated domain: it may be refused, or answered by ANY equivalent equation
    terms = [(var("v0"), var("s0")), (var("v1"), var("s1"))]
    for what, atomic in (("-v0", op("neg", var("v0"))), ("2*v0", op("mul", num(2), var("v0")))):
        for reduce_factor in (True, False):
            run.ob("Q3", f"scaled-unknown {what},reduce={reduce_factor}")
            res = run_case("scaled", _VE(terms), terms, atomic, reduce_factor)
            if isinstance(res, Raised):
                continue
            ok = isinstance(res, tuple) and res and res[0] == "eq"
            if ok:
                d = op("sub", res[1], res[2])
                coefs = []
                for v, c in terms:
                    env = {str(u.val): num(1 if u == v else 0) for u, _ in terms}
                    coefs.append((normalize(substitute(d, env)), normalize(c)))
                lam = coefs[0][0] / coefs[0][1]
                ok = not lam.is_zero() and all(same(cd, lam * ce) for cd, ce in coefs)
            if not ok:
                run.violate("Q3", f"{MOD}:solve_for_vector:scaled-unknown:reduce={reduce_factor}", f.mod, f.fn,
                            f"asked for {what} in s0*v0 + s1*v1 (reduce_factor={reduce_factor}) the function neither refuses nor returns an equivalent equation: "
                            f"{normalize(res[1])!r} = {normalize(res[2])!r}" if isinstance(res, tuple) else f"unexpected result {res!r}")
    # refusals
    terms = [(var("v0"), var("s0")), (var("v1"), var("s1"))]
    for reduce_factor in (True, False):
        run.ob("Q1", f"missing-unknown-refused,reduce={reduce_factor}")
        res = run_case("missing", _VE(terms), terms, var("v7"), reduce_factor)
        if not isinstance(res, Raised):
            run.violate("Q1", f"{MOD}:solve_for_vector:missing-unknown", f.mod, f.fn,
                        f"asking for a vector that is not a term of the expression is not refused (got {'raises ' + res.exc if isinstance(res, Raised) else repr(res)[:80]})")
        run.ob("Q1", f"non-vector-refused,reduce={reduce_factor}")
        res = run_case("non-vector", var("s0"), [], var("v0"), reduce_factor)
        if not isinstance(res, Raised):
            run.violate("Q1", f"{MOD}:solve_for_vector:type-refusal", f.mod, f.fn,
                        f"a non-vector expression is not refused (got {'raises ' + res.exc if isinstance(res, Raised) else repr(res)[:80]})")
        # a bare dot product is a scalar too - one whose class happens to name its operands .lhs and .rhs
        run.ob("Q1", f"bare-dot-product-refused,reduce={reduce_factor}")
        res = run_case("bare-dot", _Dot(_VE([(var("v0"), num(1))]), _VE([(var("v1"), num(1))])), [], var("v0"), reduce_factor)
        if not isinstance(res, Raised):
            run.violate("Q1", f"{MOD}:solve_for_vector:bare-dot-product", f.mod, f.fn,
                        f"the scalar dot(v0, v1) is not refused but read as the equation v0 = v1 (got {repr(res)[:80]}): VectorDot names its operands lhs and rhs, that makes it no equation")


def _q5(run: Run) -> None:
    """is_vector_expr decides what solve_for_vector accepts: evaluated on terms whose SymPy class is their top operator"""
    vm = run.src.need("symplyphysics.core.experimental.vectors")
    run.require(any(isinstance(s_, ast.FunctionDef) and s_.name == "is_vector_expr" for s_ in vm.tree.body), "is_vector_expr not found")

    def flat(t: T, o: str) -> list:
        return flat(t.args[0], o) + flat(t.args[1], o) if isinstance(t, T) and t.op == o else [t]

    def margs(t: T) -> list:
        """SymPy's view of a product: a/b is a * b**-1, -a is -1 * a"""
        if t.op == "mul":
            return margs(t.args[0]) + margs(t.args[1])
        if t.op == "div":
            def inv(u: T) -> list:
                if u.op == "mul":
                    return inv(u.args[0]) + inv(u.args[1])
                if u.op == "pow" and u.args[1].op == "num":
                    return [op("pow", u.args[0], num(-u.args[1].val))]  # (b**2)**-1 is b**-2 for SymPy
                return [op("pow", u, num(-1))]
            return margs(t.args[0]) + inv(t.args[1])
        if t.op == "neg":
            return [num(-1)] + margs(t.args[0])
        return [t]

    class R(PyReader):

        def is_instance(self, v, names, n):
            return self._kind_test(v, set(names), n)

        def hook_call(self, n, env, fns):
            name = dotted(n.func) or ""
            if name == "isinstance" and len(n.args) == 2:
                v = self.ev(n.args[0], env, fns)
                kinds = {(dotted(e) or "").split(".")[-1] for e in (n.args[1].elts if isinstance(n.args[1], ast.Tuple) else [n.args[1]])}
                return self._kind_test(v, kinds, n)
            return self._other_call(n, env, fns)

        def _kind_test(self, v, kinds, n):
            if True:
                if not isinstance(v, (T, int)):
                    return False
                if isinstance(v, int):
                    v = num(v)
                res = False
                if kinds & {"VectorExpr", "VectorSymbol"}:
                    res = res or _is_vec(v)
                if kinds & {"SymAdd", "Add"}:
                    res = res or v.op in ("add", "sub")
                if kinds & {"SymMul", "Mul"}:
                    res = res or v.op in ("mul", "div", "neg")
                if kinds & {"SymPow", "Pow"}:
                    res = res or v.op == "pow"
                unknown = kinds - {"VectorExpr", "VectorSymbol", "SymAdd", "Add", "SymMul", "Mul", "SymPow", "Pow"}
                if unknown and not res:
                    self.fail(n, f"isinstance against {sorted(unknown)} is not modelled")
                return res

        def _other_call(self, n, env, fns):
            name = dotted(n.func) or ""
            if name == "fraction" and len(n.args) == 1:
                v = self.ev(n.args[0], env, fns)
                nu, de = num(1), num(1)
                for f_ in margs(v):
                    if f_.op == "pow" and ((f_.args[1].op == "num" and f_.args[1].val < 0) or f_.args[1].op == "neg"):
                        e_ = num(-f_.args[1].val) if f_.args[1].op == "num" else f_.args[1].args[0]
                        de = op("mul", de, f_.args[0] if (e_.op == "num" and e_.val == 1) else op("pow", f_.args[0], e_))
                    else:
                        nu = op("mul", nu, f_)
                return [_strip_one(nu), _strip_one(de)]
            return NotImplemented

        def hook_attr(self, base, attr, n):
            if isinstance(base, T) and attr == "args":
                if base.op in ("add", "sub"):
                    return _addends(base)
                if base.op in ("mul", "div", "neg"):
                    return margs(base)
                if base.op == "pow":
                    return [base.args[0], base.args[1]]
                return []
            if isinstance(base, T) and attr == "base" and base.op == "pow":
                return base.args[0]
            if isinstance(base, T) and attr == "exp" and base.op == "pow":
                return base.args[1]
            return NotImplemented

    a, b, c, d, x, y = var("va"), var("vb"), var("vc"), var("vd"), var("x"), var("y")
    # (expression, must it be accepted as a vector expression?)  "refused" = False or an exception
    table = [
        ("c", c, True), ("x*c", op("mul", x, c), True), ("c/x", op("div", c, x), True), ("x*c + d", op("add", op("mul", x, c), d), True),
        ("x*y*c - d/y", op("sub", op("mul", op("mul", x, y), c), op("div", d, y)), True), ("0", num(0), True),
        ("x", x, False), ("x + c", op("add", x, c), False), ("a*b", op("mul", a, b), False), ("x*a*b + c", op("add", op("mul", op("mul", x, a), b), c), False),
        ("c/b", op("div", c, b), False), ("c*b**2 + d", op("add", op("mul", c, op("pow", b, num(2))), d), False),
        ("c/b**2 + d", op("add", op("div", c, op("pow", b, num(2))), d), False), ("b**2", op("pow", b, num(2)), False),
    ]
    for label, term, want in table:
        rd = R(vm.tree, "vectors/__init__.py")
        run.ob("Q5", label)
        try:
            got = rd.call("is_vector_expr", [term])
        except Raised:
            got = False
        if not isinstance(got, bool):
            raise AnalysisError(f"C16: is_vector_expr({label}) evaluated to {got!r}")
        if got != want:
            run.violate("Q5", f"symplyphysics.core.experimental.vectors:is_vector_expr:{label}", vm, vm.tree,
                        f"is_vector_expr({label}) is {'accepted' if got else 'refused'}; " +
                        ("a linear combination of vectors with scalar coefficients must be accepted" if want else
                         "it is not a linear combination of vectors with scalar coefficients (a product or power of vectors, a vector in a denominator, or no vector at all): "
                         "solve_for_vector would rearrange it as if the extra vector factors were scalars"))


def _q2(run: Run, mod) -> None:
    """apply(eqn, f) evaluated on an equation and on a bare expression with an opaque function f"""

    class R(PyReader):

        def hook_attr(self, base, attr, n):
            if isinstance(base, tuple) and len(base) == 3 and base[0] in ("eq", "dot") and attr in ("lhs", "rhs"):
                return base[1] if attr == "lhs" else base[2]
            return NotImplemented

        def has_attr(self, obj, name):
            if name in ("lhs", "rhs"):
                return isinstance(obj, tuple) and len(obj) == 3 and obj[0] in ("eq", "dot")
            return None

        def is_instance(self, v, names, n):
            if "Eq" in names or "Equality" in names:
                return isinstance(v, tuple) and len(v) == 3 and v[0] == "eq"
            self.fail(n, "isinstance outside the modelled classes")

        def hook_call(self, n, env, fns):
            name = (dotted(n.func) or "").split(".")[-1]
            if name == "isinstance" and len(n.args) == 2:
                return self.is_instance(self.ev(n.args[0], env, fns), self.class_names(n.args[1]), n)
            if name == "Eq" and len(n.args) == 2:
                return ("eq", self.ev(n.args[0], env, fns), self.ev(n.args[1], env, fns))
            if isinstance(n.func, ast.Name) and n.func.id in env and env[n.func.id] == "F" and len(n.args) == 1:
                return ("F", self.ev(n.args[0], env, fns))
            return NotImplemented

    a, b, e = var("A"), var("B"), var("E")

    def zero(x) -> bool:
        return x == 0 or (isinstance(x, T) and x.op == "num" and x.val == 0)

    dot_ = ("dot", var("P"), var("Q"))  # a bare dot product: an expression whose class names its operands .lhs / .rhs
    for label, arg, want_l, want_r in (("equation", ("eq", a, b), a, b), ("expression", e, e, None), ("bare dot product", dot_, dot_, None)):
        run.ob("Q2", f"apply:{label}")
        rd = R(mod.tree, "solvers/__init__.py")
        try:
            got = rd.call("apply", [arg, "F"])
        except Raised as r:
            got = r
        ok = isinstance(got, tuple) and len(got) == 3 and got[0] == "eq" and all(isinstance(x, tuple) and len(x) == 2 and x[0] == "F" for x in got[1:]) \
            and got[1][1] == want_l and (got[2][1] == want_r if want_r is not None else zero(got[2][1]))
        if not ok:
            run.violate("Q2", f"{MOD}:apply:{label}", mod, mod.tree,
                        f"apply({'Eq(A, B)' if label == 'equation' else 'E'}, f) does not return Eq(f({'A' if label == 'equation' else 'E'}), f({'B' if label == 'equation' else '0'})): got "
                        f"{('raises ' + got.exc) if isinstance(got, Raised) else repr(got)[:120]}")


def _strip_one(t: T) -> T:
    while t.op == "mul" and t.args[0].op == "num" and t.args[0].val == 1:
        t = t.args[1]
    return t


SYMPY_FALSE = ("S.false", )


def _q4(run: Run, mod) -> None:
    """the returned list consists of equations Eq(unknown, root) taken from ONE solution of sympy.solve(f, symbol, dict=True), never of a root that
    contradicts the unknown's assumptions (such an Eq evaluates to False), and solve's own verification of candidates is not switched off"""
    x, y = var("x"), var("y")
    good1, good2, bad = var("root1"), var("root2"), var("contradictory_root")

    class R(PyReader):

        def __init__(self, solutions):
            super().__init__(mod.tree, "solve_for_scalar")
            self.solutions = solutions
            self.solve_kwargs = None

        def hook_call(self, n, env, fns):
            name = (dotted(n.func) or "").split(".")[-1]
            if name in ("sym_solve", "solve") and len(n.args) >= 2:
                kw_ = {k.arg: self.ev(k.value, env, fns) for k in n.keywords if k.arg}
                for k in n.keywords:
                    if k.arg is None:
                        extra = self.ev(k.value, env, fns)
                        if isinstance(extra, dict):
                            kw_.update(extra)
                self.solve_kwargs = kw_
                return [dict(d_) for d_ in self.solutions]
            if name == "Eq" and len(n.args) == 2:
                l, r = self.ev(n.args[0], env, fns), self.ev(n.args[1], env, fns)
                if r == bad:
                    return SYMPY_FALSE  # SymPy evaluates Eq(norm(v), <negative>) to S.false: EQUAL to Python's False, not identical with it
                return ("eq", l, r)
            return NotImplemented

        def hook_compare(self, o, l, r, n):
            if l is SYMPY_FALSE or r is SYMPY_FALSE:
                other = r if l is SYMPY_FALSE else l
                if isinstance(o, (ast.Eq, ast.NotEq)):
                    res = other is False or other is SYMPY_FALSE
                    return res if isinstance(o, ast.Eq) else not res
                if isinstance(o, (ast.Is, ast.IsNot)):
                    res = other is SYMPY_FALSE
                    return res if isinstance(o, ast.Is) else not res
            return NotImplemented

        def truthy(self, v, n):
            if v is SYMPY_FALSE:
                return False
            return super().truthy(v, n)

    cases = [
        ("one solution", [{x: good1}], [[("eq", x, good1)]]),
        ("first root contradicts the unknown", [{x: bad}, {x: good2}], [[("eq", x, good2)]]),
        ("two unknowns", [{x: good1, y: good2}], [[("eq", x, good1), ("eq", y, good2)], [("eq", y, good2), ("eq", x, good1)]]),
        ("no solution", [], [[]]),
    ]
    # the verification flag in any spelling (keyword, item assignment, setdefault / update / dict literal), on any path: decided before the evaluation,
    # which cannot follow a condition on the kind of equation
    fn = next((f_ for f_ in mod.tree.body if isinstance(f_, ast.FunctionDef) and f_.name == "solve_for_scalar"), None)
    if fn is None:
        raise AnalysisError("C16/Q4: solve_for_scalar not found")
    run.ob("Q4", "check-flag-spellings")

    def _is_false(v) -> bool:
        return isinstance(v, ast.Constant) and v.value is False

    for x_ in ast.walk(fn):
        hit = None
        if isinstance(x_, ast.keyword) and x_.arg == "check" and _is_false(x_.value):
            hit = x_.value
        elif isinstance(x_, ast.Assign) and any(isinstance(t_, ast.Subscript) and isinstance(t_.slice, ast.Constant) and t_.slice.value == "check" for t_ in x_.targets) \
                and _is_false(x_.value):
            hit = x_
        elif isinstance(x_, ast.Call) and isinstance(x_.func, ast.Attribute) and x_.func.attr == "setdefault" and len(x_.args) == 2 \
                and isinstance(x_.args[0], ast.Constant) and x_.args[0].value == "check" and _is_false(x_.args[1]):
            hit = x_
        elif isinstance(x_, ast.Dict) and any(isinstance(k_, ast.Constant) and k_.value == "check" and _is_false(v_) for k_, v_ in zip(x_.keys, x_.values)):
            hit = x_
        if hit is not None:
            run.violate("Q4", f"{MOD}:solve_for_scalar:check-disabled", mod, hit,
                        f"solve_for_scalar switches off sympy.solve's verification of candidate solutions (`{norm(x_ if not isinstance(x_, ast.keyword) else x_.value, 50)}` for "
                        f"`check`): extraneous roots are returned as solutions")
    for label, sols, accepted in cases:
        rd = R(sols)
        run.ob("Q4", label)
        try:
            got = rd.call("solve_for_scalar", [var("f"), x])
        except Raised as r:
            got = r
        if isinstance(got, Raised) and label == "no solution":
            continue  # a refusal is as good as an empty list
        ok = isinstance(got, list) and any(got == a_ for a_ in accepted)
        if not ok:
            shown = ("raises " + got.exc) if isinstance(got, Raised) else repr(got)[:120]
            run.violate("Q4", f"{MOD}:solve_for_scalar:{label}", mod, mod.tree,
                        f"solve_for_scalar, when sympy.solve returns {sols!r}: got {shown}; expected the equations Eq(unknown, root) of one solution whose roots do not contradict "
                        f"the unknown (an Eq with such a root evaluates to False, which is no equation)")
        kw_ = rd.solve_kwargs or {}
        run.ob("Q4", f"{label}:solve-flags")
        if kw_.get("dict") is not True:
            run.violate("Q4", f"{MOD}:solve_for_scalar:dict-flag", mod, mod.tree, "sympy.solve is not called with dict=True: the pairing of unknowns and roots is lost")
        if kw_.get("check", True) is False:
            run.violate("Q4", f"{MOD}:solve_for_scalar:check-disabled", mod, mod.tree,
                        "solve_for_scalar switches off sympy.solve's verification of candidate solutions (check=False): extraneous roots are returned as solutions")
    # the caller's keywords belong to that call: a later call without keywords hands sympy.solve dict=True and nothing else
    run.ob("Q4", "flags-do-not-outlive-the-call")
    rd = R([{x: good1}])
    try:
        rd.call("solve_for_scalar", [var("f"), x], {"check": False, "simplify": False})
        first = dict(rd.solve_kwargs or {})
        rd.solve_kwargs = None
        rd.call("solve_for_scalar", [var("g"), x])
        second = dict(rd.solve_kwargs or {})
    except Raised as r:
        first, second = {}, {"<raises>": r.exc}
    if first.get("check") is not False or first.get("simplify") is not False:
        run.violate("Q4", f"{MOD}:solve_for_scalar:caller-flags-dropped", mod, mod.tree, f"the caller's keywords (check=False, simplify=False) do not reach sympy.solve: it is called with {first!r}")
    if set(second) - {"dict"}:
        run.violate("Q4", f"{MOD}:solve_for_scalar:flags-outlive-the-call", mod, mod.tree,
                    f"after a call with the keywords check=False, simplify=False a call WITHOUT keywords hands sympy.solve {second!r}: the first caller's keywords are kept in "
                    f"module-level state, so the verification of candidate roots stays switched off for everybody (Eq(sqrt(x), x - 2) then has the root 1)")
