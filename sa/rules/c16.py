"""C16 - vector-equation rearrangement is equivalence preserving (E3 + E4)."""
from __future__ import annotations

import ast
import itertools

from ..core import Run, AnalysisError, dotted, norm
from ..alg import T, num, var, op, normalize, same, C
from ..pyreader import PyReader, Raised, _Return
from ..dim import World
from ..flow import Fn, node_calls, conditions_for, stmt_of

EXPLANATION = (
    "Q1 solve_for_vector refuses a non-vector expression with TypeError before splitting it and a missing unknown with ValueError "
    "before building the result (dominance on the CFG); an Eq input becomes lhs - rhs; Q2 apply wraps both sides of the equation "
    "with the same function and keeps the sides; Q3 the rearrangement formula is decided in a finite-sum abstraction: the tail "
    "of solve_for_vector is evaluated abstractly for every length N = 1..4 of the linear combination and every position of the "
    "unknown, with generic vectors and generic scalar coefficients, and the returned equation satisfies lhs - rhs = expr / scale "
    "(factor reduction on) and lhs - rhs = -expr (off) exactly - so the returned equation is equivalent to the original for all "
    "coefficients; Q4 solve_for_scalar pairs each solved symbol with its own solution and never switches off "
    "SymPy's verification of candidate solutions; Q5 is_vector_expr refuses a product of two or more vectors (no early `return True` inside the loop over the factors). Not decided: SymPy's solver, "
    "vector_equals (runs simplify), and the term splitting helpers.")
ASSUMPTIONS = ["into_terms / split_factor return the (vector, coefficient) decomposition of the expression (C14's undecided part)",
               "vector symbols are treated as commuting indeterminates of a free module (all operations used are linear)"]
TRUSTED = ["sympy.solve", "python ast", "sa/pyreader.py abstract evaluator"]

MOD = "symplyphysics.core.experimental.solvers"


def check(run: Run) -> None:
    run.rule("Q1", "non-vector input -> TypeError before splitting; unknown not among the terms -> ValueError before the result; Eq input -> lhs - rhs")
    run.rule("Q2", "apply wraps both sides with the same function")
    run.rule("Q3", "returned equation satisfies lhs - rhs = expr/scale (reduce_factor) or -expr, for every length and position of the unknown")
    run.rule("Q4", "solve_for_scalar returns Eq(symbol, its solution) for every solved symbol and never disables SymPy's verification of solutions")
    run.rule("Q5", "is_vector_expr refuses a product of two or more vectors (so solve_for_vector refuses it)")
    w = World(run.src)
    mod = run.src.need(MOD)
    f = Fn(w, MOD, "solve_for_vector")
    # ---- Q1
    type_tests = [n for n in f.cfg.stmt_nodes() if n.kind == "test" and isinstance(n.ast, ast.If) and isinstance(n.ast.test, ast.UnaryOp) and isinstance(n.ast.test.op, ast.Not)
                  and isinstance(n.ast.test.operand, ast.Call) and dotted(n.ast.test.operand.func) == "is_vector_expr" and [dotted(a) for a in n.ast.test.operand.args] == ["expr"]
                  and len(n.ast.body) == 1 and isinstance(n.ast.body[0], ast.Raise) and dotted(getattr(n.ast.body[0].exc, "func", n.ast.body[0].exc)) == "TypeError"]
    none_tests = [n for n in f.cfg.stmt_nodes() if n.kind == "test" and isinstance(n.ast, ast.If) and isinstance(n.ast.test, ast.Compare) and isinstance(n.ast.test.ops[0], ast.Is)
                  and isinstance(n.ast.test.comparators[0], ast.Constant) and n.ast.test.comparators[0].value is None
                  and len(n.ast.body) == 1 and isinstance(n.ast.body[0], ast.Raise) and dotted(getattr(n.ast.body[0].exc, "func", n.ast.body[0].exc)) == "ValueError"]
    splits = [n for n in f.cfg.stmt_nodes() for c in node_calls(n) if dotted(c.func) in ("into_terms", "split_factor")]
    run.require(bool(splits), "solve_for_vector no longer splits the expression into terms")
    for n in splits:
        run.ob("Q1", "type-refusal-before-split")
        if not f.cfg.dominated_by(n, lambda y: y in type_tests):
            run.violate("Q1", f"{MOD}:solve_for_vector:type-refusal", f.mod, n.ast, "the expression is split into terms without `if not is_vector_expr(expr): raise TypeError` having passed")
    idx_var = None
    for t in none_tests:
        idx_var = dotted(t.ast.test.left)
    for r in f.cfg.returns():
        run.ob("Q1", "missing-unknown-refusal")
        if not f.cfg.dominated_by(r, lambda y: y in none_tests):
            run.violate("Q1", f"{MOD}:solve_for_vector:missing-unknown:{norm(r.ast, 40)}", f.mod, r.ast, "a result can be returned although the requested vector is not a term of the expression (no `raise ValueError`)")
    # Eq -> lhs - rhs
    run.ob("Q1", "eq-to-difference")
    ok = False
    for n in f.cfg.stmt_nodes():
        a = n.ast
        if isinstance(a, ast.Assign) and dotted(a.targets[0]) == "expr" and isinstance(a.value, ast.BinOp) and isinstance(a.value.op, ast.Sub) \
                and dotted(a.value.left) == "expr.lhs" and dotted(a.value.right) == "expr.rhs":
            conds = conditions_for(f.fn, a) or []
            if len(conds) == 1 and isinstance(conds[0][0], ast.Call) and dotted(conds[0][0].func) == "isinstance" and conds[0][1] is True:
                ok = True
    if not ok:
        run.violate("Q1", f"{MOD}:solve_for_vector:eq-input", f.mod, f.fn, "an Eq input is not turned into lhs - rhs")
    # the search loop binds the index of the term whose vector equals the unknown
    run.ob("Q1", "search-loop")
    ok = False
    for lp in [n for n in f.cfg.stmt_nodes() if n.kind == "for"]:
        it, tg = lp.ast.iter, lp.ast.target
        if isinstance(it, ast.Call) and dotted(it.func) == "enumerate" and [dotted(a) for a in it.args] == ["combination"] and isinstance(tg, ast.Tuple) and len(tg.elts) == 2 \
                and isinstance(tg.elts[0], ast.Name) and isinstance(tg.elts[1], ast.Tuple) and isinstance(tg.elts[1].elts[0], ast.Name):
            j, v = tg.elts[0].id, tg.elts[1].elts[0].id
            for s in lp.ast.body:
                if isinstance(s, ast.If) and isinstance(s.test, ast.Call) and dotted(s.test.func) == "vector_equals" and sorted(dotted(a) or "" for a in s.test.args) == sorted([v, "atomic"]):
                    if any(isinstance(x, ast.Assign) and dotted(x.targets[0]) == idx_var and dotted(x.value) == j for x in s.body):
                        ok = True
    if not ok:
        run.violate("Q1", f"{MOD}:solve_for_vector:search", f.mod, f.fn, "the index of the unknown is not the position of the term whose vector equals `atomic`")
    # ---- Q3: evaluate the tail abstractly
    body = f.fn.body
    start = None
    for k, s in enumerate(body):
        if isinstance(s, ast.If) and any(s is t.ast for t in none_tests):
            start = k + 1
    if start is None or idx_var is None:
        if any(fd.rule == "Q1" for fd in run.findings):
            run.skip("Q3", f"{f.mod.rel}:{f.fn.lineno}", "the missing-unknown refusal (reported under Q1) delimits the formula tail; not found")
            start = len(body)
        else:
            raise AnalysisError("C16: the tail of solve_for_vector (after the missing-unknown refusal) was not found")
    tail = body[start:]
    R = PyReader(mod.tree, where="solve_for_vector tail")
    for N in (range(1, 8 if run.tier == "thorough" else 5) if tail else ()):
        for i in range(N):
            for reduce_factor in (True, False):
                vs = [var(f"v{k}") for k in range(N)]
                ss = [var(f"s{k}") for k in range(N)]
                env = {"combination": [[vs[k], ss[k]] for k in range(N)], idx_var: i, "atomic": vs[i], "reduce_factor": reduce_factor}
                run.ob("Q3", f"N={N},i={i},reduce={reduce_factor}")
                try:
                    R.block(tail, env, {})
                    res = None
                except _Return as r:
                    res = r.value
                except Raised as r:
                    res = r
                if not (isinstance(res, tuple) and res and res[0] == "eq"):
                    run.violate("Q3", f"{MOD}:solve_for_vector:result:N={N},i={i},reduce={reduce_factor}", f.mod, f.fn, f"no equation is returned (got {res!r})")
                    continue
                expr = num(0)
                for k in range(N):
                    expr = op("add", expr, op("mul", vs[k], ss[k]))
                diff = normalize(op("sub", res[1], res[2]))
                want = normalize(op("div", expr, ss[i])) if reduce_factor else normalize(op("neg", expr))
                if not same(diff, want):
                    run.violate("Q3", f"{MOD}:solve_for_vector:formula:reduce={reduce_factor}", f.mod, f.fn,
                                f"with {N} term(s), unknown at position {i}, reduce_factor={reduce_factor}: lhs - rhs = {diff!r}, but equivalence requires {want!r}",
                                N=N, position=i)
                if N == 3 and i == 1:
                    run.sample({"terms": N, "unknown_at": i, "reduce_factor": reduce_factor, "lhs": repr(normalize(res[1])), "rhs": repr(normalize(res[2]))})
    # ---- Q2
    a = Fn(w, MOD, "apply")
    for r in a.cfg.returns():
        run.ob("Q2", "apply")
        v = r.ast.value
        ok = isinstance(v, ast.Call) and dotted(v.func) == "Eq" and len(v.args) == 2 and all(isinstance(x, ast.Call) and dotted(x.func) == "f" and len(x.args) == 1 for x in v.args)
        if ok:
            s0, s1 = a.slice(r, v.args[0].args[0]), a.slice(r, v.args[1].args[0])
            ok = ("eqn.lhs" in s0.attrs or "lhs" in s0.attr_names) and ("eqn.rhs" in s1.attrs or "rhs" in s1.attr_names) and "rhs" not in s0.attr_names and "lhs" not in s1.attr_names
        if not ok:
            run.violate("Q2", f"{MOD}:apply", a.mod, r.ast, "apply does not return Eq(f(lhs), f(rhs))")
    # ---- Q4
    g = Fn(w, MOD, "solve_for_scalar")
    for r in g.cfg.returns():
        run.ob("Q4", "solve_for_scalar")
        v = r.ast.value
        ok = isinstance(v, ast.ListComp) and isinstance(v.elt, ast.Call) and dotted(v.elt.func) == "Eq" and len(v.generators) == 1 and isinstance(v.generators[0].target, ast.Tuple) \
            and [dotted(x) for x in v.elt.args] == [dotted(e) for e in v.generators[0].target.elts] and isinstance(v.generators[0].iter, ast.Call) \
            and isinstance(v.generators[0].iter.func, ast.Attribute) and v.generators[0].iter.func.attr == "items"
        if ok:
            sl = g.slice(r, v.generators[0].iter)
            ok = any(c.endswith("sym_solve") or c == "solve" for c in sl.calls) and {"f", "symbol"} <= sl.params
        if not ok:
            run.violate("Q4", f"{MOD}:solve_for_scalar", g.mod, r.ast, "solve_for_scalar does not return [Eq(symbol, solution) for symbol, solution in solve(f, symbol, dict=True)[0].items()]")
    run.ob("Q4", "solutions-are-verified")
    for x in ast.walk(g.fn):
        bad = None
        if isinstance(x, ast.keyword) and x.arg == "check" and isinstance(x.value, ast.Constant) and x.value.value is False:
            bad = x.value
        if isinstance(x, ast.Call) and isinstance(x.func, ast.Attribute) and x.func.attr in ("setdefault", "update", "__setitem__") and x.args \
                and isinstance(x.args[0], ast.Constant) and x.args[0].value == "check":
            bad = x
        if isinstance(x, ast.Assign) and any(isinstance(t, ast.Subscript) and isinstance(t.slice, ast.Constant) and t.slice.value == "check" for t in x.targets) \
                and isinstance(x.value, ast.Constant) and x.value.value is False:
            bad = x
        if bad is not None:
            run.violate("Q4", f"{MOD}:solve_for_scalar:check-disabled", g.mod, bad,
                        "solve_for_scalar switches off sympy.solve's verification of candidate solutions (check=False): extraneous roots are returned as solutions")
    # ---- Q5
    vm = run.src.need("symplyphysics.core.experimental.vectors")
    ive = next((s_ for s_ in vm.tree.body if isinstance(s_, ast.FunctionDef) and s_.name == "is_vector_expr"), None)
    run.require(ive is not None, "is_vector_expr not found")
    run.ob("Q5", "product-of-vectors-refused")
    mul_if = next((s_ for s_ in ive.body if isinstance(s_, ast.If) and isinstance(s_.test, ast.Call) and dotted(s_.test.func) == "isinstance" and dotted(s_.test.args[1]) in ("SymMul", "Mul")), None)
    run.require(mul_if is not None, "is_vector_expr: the branch for products not found")
    raises = [x for x in ast.walk(mul_if) if isinstance(x, ast.Raise)]
    argsname = f"{dotted(mul_if.test.args[0])}.args"
    loops = [x for x in ast.walk(mul_if) if isinstance(x, ast.For) and dotted(x.iter) == argsname]
    comps = [g for x in ast.walk(mul_if) if isinstance(x, (ast.ListComp, ast.GeneratorExp, ast.SetComp)) for g in x.generators if dotted(g.iter) == argsname]
    early_true = any(isinstance(x, ast.Return) and isinstance(x.value, ast.Constant) and x.value.value is True for lp in loops for s_ in lp.body for x in ast.walk(s_))
    counted = any(isinstance(x, ast.AugAssign) and isinstance(x.op, ast.Add) for lp in loops for s_ in lp.body for x in ast.walk(s_))
    good = bool(raises) and not early_true
    if good and not (counted or comps):
        raise AnalysisError("C16: is_vector_expr refuses some products, but how it counts the vector factors is not understood")
    if not good:
        run.violate("Q5", "symplyphysics.core.experimental.vectors:is_vector_expr:product", vm, ive,
                    "is_vector_expr no longer counts the vector factors of a product over all its arguments and raises for two or more: a*b*x passes as a vector expression "
                    "and solve_for_vector rearranges it")
