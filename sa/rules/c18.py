"""C18 - LaTeX rendering: well-formedness clause only (balanced braces, matched \\left/\\right), by induction on the printer (E0/E3)."""
from __future__ import annotations

import ast
import re

from ..core import Run, AnalysisError, dotted, norm, PKG

EXPLANATION = (
    "Decides the well-formedness clause of C18 and three code-visible necessary conditions of the value clause (L4 an outer exponent "
    "handed to a printer method is used on every path not guarded by `exp is None`; L5 numbers are never rounded or re-formatted; L6 no "
    "f-string emits an unsubstituted {placeholder}); L3 keeps the induction sound: LaTeX strings are composed, never cut. Well-formedness (balanced braces, matched \\left/\\right), by induction over the custom "
    "printer: L1 every string template emitted by the methods of the LaTeX printer class (f-strings with their placeholders "
    "removed, %-format strings, plain literals) is brace-balanced and \\left/\\right-balanced on its own, so any concatenation / "
    "formatting of balanced pieces with balanced sub-results is balanced; L2 every display_latex= and subscript= literal in the "
    "package (they are embedded verbatim) and the name templates of _process_subscript_and_names / _process_vector_names are "
    "balanced. L16 evaluates _print_Mul (with _extract_minus_sign and convert_args) on eight products carrying a factor -1: one sign, every "
    "factor, a remaining sum in brackets. Meaning preservation as a whole (brackets where needed, signs, fractions) is NOT decided: it depends on SymPy predicates "
    "applied to run-time expression trees.")
ASSUMPTIONS = ["SymPy's own LatexPrinter emits balanced output for balanced sub-results", "only the well-formedness clause is claimed"]
TRUSTED = ["sympy.printing.latex.LatexPrinter", "python ast"]

PRINTER = "symplyphysics.docs.printer_latex"


def balance(s: str) -> str | None:
    """None when `s` has balanced braces and matched \\left/\\right, else a reason."""
    depth = 0
    i = 0
    while i < len(s):
        ch = s[i]
        if ch == "\\" and i + 1 < len(s):
            i += 2  # escaped character (\{ \} \\ \l...) - a command letter is skipped harmlessly
            continue
        if ch == "{":
            depth += 1
        elif ch == "}":
            depth -= 1
            if depth < 0:
                return "a closing brace without an opening one"
        i += 1
    if depth != 0:
        return f"{depth} unclosed brace(s)"
    lr = 0
    for m in re.finditer(r"\\(left|right)(?![A-Za-z])", s):
        lr += 1 if m.group(1) == "left" else -1
        if lr < 0:
            return "\\right without \\left"
    if lr != 0:
        return f"{lr} \\left without \\right"
    return None


def templates(fn: ast.AST) -> list[tuple[ast.AST, str]]:
    """String templates in a function: f-strings as one template (placeholders removed), %-formats with specs removed, literals."""
    out = []
    inside_joined = set()
    for x in ast.walk(fn):
        if isinstance(x, ast.JoinedStr):
            text = ""
            for v in x.values:
                if isinstance(v, ast.Constant) and isinstance(v.value, str):
                    text += v.value
                    inside_joined.add(id(v))
                elif isinstance(v, ast.FormattedValue) and v.format_spec is not None:
                    for w in ast.walk(v.format_spec):
                        inside_joined.add(id(w))
            out.append((x, text))
    doc = ast.get_docstring(fn) if isinstance(fn, (ast.FunctionDef, ast.ClassDef, ast.Module)) else None
    for x in ast.walk(fn):
        if isinstance(x, ast.Constant) and isinstance(x.value, str) and id(x) not in inside_joined:
            if doc is not None and x.value.strip() == doc.strip():
                continue
            text = re.sub(r"%(\([^)]*\))?[-#0 +]*\d*(\.\d+)?[sdrf]", "", x.value)
            out.append((x, text))
    return out


def _l10(run: Run) -> None:
    pm = run.src.need(PRINTER)
    pcls = [c for c in pm.tree.body if isinstance(c, ast.ClassDef) and any(dotted(b) == "LatexPrinter" for b in c.bases)]
    run.require(bool(pcls), "LaTeX printer class not found")
    LEVELS = {"Mul", "Pow", "Func", "Atom", "BitwiseAnd", "BitwiseOr", "BitwiseXor"}
    for opname, modname in (("IndexedSum", "symplyphysics.core.operations.sum_indexed"), ("IndexedProduct", "symplyphysics.core.operations.product_indexed")):
        meth = next((f_ for f_ in pcls[0].body if isinstance(f_, ast.FunctionDef) and f_.name == f"_print_{opname}"), None)
        run.require(meth is not None, f"_print_{opname} not found")
        run.ob("L10", f"{opname}:body-bracketed")
        # the body is the first element of expr.args; whatever renders it must be self.parenthesize(<body>, PRECEDENCE[<level>])
        param = meth.args.args[1].arg
        body_names = set()
        for st in ast.walk(meth):
            if isinstance(st, ast.Assign) and isinstance(st.targets[0], ast.Tuple) and dotted(st.value) == f"{param}.args" and st.targets[0].elts and isinstance(st.targets[0].elts[0], ast.Name):
                body_names.add(st.targets[0].elts[0].id)
        def is_body(x) -> bool:
            return (isinstance(x, ast.Name) and x.id in body_names) or (isinstance(x, ast.Subscript) and dotted(x.value) == f"{param}.args" and isinstance(x.slice, ast.Constant) and x.slice.value == 0) \
                or dotted(x) == f"{param}.function"
        bare = [c for c in ast.walk(meth) if isinstance(c, ast.Call) and dotted(c.func) in ("self._print", "self.doprint") and c.args and is_body(c.args[0])]
        grouped = [c for c in ast.walk(meth) if isinstance(c, ast.Call) and dotted(c.func) == "self.parenthesize" and len(c.args) >= 2 and is_body(c.args[0])
                   and isinstance(c.args[1], ast.Subscript) and dotted(c.args[1].value) == "PRECEDENCE" and isinstance(c.args[1].slice, ast.Constant) and c.args[1].slice.value in LEVELS]
        if bare or not grouped:
            run.violate("L10", f"{PRINTER}:_print_{opname}:body", pm, meth,
                        f"_print_{opname} renders the body of the {'sum' if opname == 'IndexedSum' else 'product'} without brackets: `{opname}(x[i] + a, i)` and `{opname}(x[i], i) + a` get the same LaTeX")
        om = run.src.need(modname)
        ocls = next((c for c in om.tree.body if isinstance(c, ast.ClassDef) and c.name == opname), None)
        run.require(ocls is not None, f"class {opname} not found")
        run.ob("L10", f"{opname}:precedence")
        prec = [st for st in ocls.body if isinstance(st, ast.Assign) and any(isinstance(t, ast.Name) and t.id == "precedence" for t in st.targets)]
        ok = any(isinstance(st.value, ast.Subscript) and dotted(st.value.value) == "PRECEDENCE" and isinstance(st.value.slice, ast.Constant) and st.value.slice.value in ("Mul", "Add") for st in prec)
        if not ok:
            run.violate("L10", f"{modname}:{opname}:precedence", om, ocls,
                        f"{opname} declares no precedence: SymPy's printers treat `\\sum_i ...` as an atom, so (sum_i N_i)! is rendered `\\sum_i N_i!` - the catalogue law "
                        f"statistical_weight_of_macrostate reads as a sum of factorials - and `{opname}(x[i], i)**2` like `{opname}(x[i]**2, i)`")


def _l12_l13(run: Run) -> None:
    """L12: SymPy's bracket predicates for factors and function arguments, where overridden, may only ADD brackets. L13: the printer object is not kept across calls."""
    pm = run.src.need(PRINTER)
    cls = next((c for c in pm.tree.body if isinstance(c, ast.ClassDef) and any(dotted(b) == "LatexPrinter" for b in c.bases)), None)
    run.require(cls is not None, "LaTeX printer class not found")
    for pname in ("_needs_mul_brackets", "_needs_brackets", "_needs_function_brackets"):
        run.ob("L12", pname)
        fn = next((f for f in cls.body if isinstance(f, ast.FunctionDef) and f.name == pname), None)
        if fn is None:
            continue  # SymPy's own predicate is used as it is

        def from_super(e) -> bool:
            # True | super().<same predicate>(...) | bool(super()...) | <anything> or super()...   -- brackets SymPy asks for are never dropped
            if isinstance(e, ast.Constant) and e.value is True:
                return True
            if isinstance(e, ast.Call) and dotted(e.func) == "bool" and len(e.args) == 1:
                return from_super(e.args[0])
            if isinstance(e, ast.Call) and isinstance(e.func, ast.Attribute) and e.func.attr == pname and isinstance(e.func.value, ast.Call) and dotted(e.func.value.func) == "super":
                return True
            if isinstance(e, ast.BoolOp) and isinstance(e.op, ast.Or):
                return any(from_super(v) for v in e.values)
            if isinstance(e, ast.IfExp):
                return from_super(e.body) and from_super(e.orelse)
            return False
        for r in [x for x in ast.walk(fn) if isinstance(x, ast.Return)]:
            if r.value is None or not from_super(r.value):
                run.violate("L12", f"{PRINTER}:{pname}:{norm(r.value, 40) if r.value is not None else 'None'}", pm, r,
                            f"the override of SymPy's {pname} answers `{norm(r.value, 60) if r.value is not None else 'None'}` without asking SymPy's own predicate: brackets SymPy would put around a factor "
                            f"(a sum as the last factor: b*(a + x)) can be dropped, which changes the meaning of the formula")
    # L13: settings of one call must not leak into the next: no module-level printer object that latex_str / code_str reuse
    for modname in (PRINTER, "symplyphysics.docs.printer_code"):
        m = run.src.need(modname)
        run.ob("L13", modname)
        printer_classes = {c.name for c in m.tree.body if isinstance(c, ast.ClassDef)}
        for fn in [f for f in ast.walk(m.tree) if isinstance(f, ast.FunctionDef)]:
            globs = {nm for g in ast.walk(fn) if isinstance(g, ast.Global) for nm in g.names}
            for a in [x for x in ast.walk(fn) if isinstance(x, ast.Assign)]:
                params = {p_.arg for p_ in fn.args.posonlyargs + fn.args.args + fn.args.kwonlyargs} | ({fn.args.vararg.arg} if fn.args.vararg else set()) | ({fn.args.kwarg.arg} if fn.args.kwarg else set())
                from_caller = isinstance(a.value, ast.Call) and any(isinstance(x, ast.Name) and x.id in params for y in list(a.value.args) + [k.value for k in a.value.keywords] for x in ast.walk(y))
                # a printer built from nothing but constants may be kept (it is the same for everybody); one built from the caller's settings may not
                if from_caller and any(isinstance(t, ast.Name) and t.id in globs for t in a.targets) and isinstance(a.value, ast.Call) and (dotted(a.value.func) or "").split(".")[-1] in printer_classes:
                    run.violate("L13", f"{modname}:{fn.name}:global-printer", m, a,
                                f"{fn.name} stores a printer object in a module-level name: a printer built for one caller's settings (fold_func_brackets, symbol_names, mode) "
                                f"renders the next, default call as well - x(t) comes out as `xt`")
        for a in [x for x in m.tree.body if isinstance(x, (ast.Assign, ast.AnnAssign)) and x.value is not None]:
            if isinstance(a.value, ast.Call) and (dotted(a.value.func) or "").split(".")[-1] in printer_classes:
                tg = a.targets[0] if isinstance(a, ast.Assign) else a.target
                # a module-level default printer is fine as long as nothing re-binds or mutates it; a function that passes settings to it is not
                uses = [x for f in ast.walk(m.tree) if isinstance(f, ast.FunctionDef) for x in ast.walk(f) if isinstance(x, ast.Attribute) and dotted(x.value) == dotted(tg) and x.attr in ("_settings", "_print_level")]
                if uses:
                    run.violate("L13", f"{modname}:{dotted(tg)}:shared-printer-settings", m, uses[0], "the settings of a shared module-level printer are changed inside a function: they persist into later calls")


def _l14_suffix_patterns(run: Run) -> None:
    """L14: a regular expression that tests how a rendered term ENDS (`...$` without a leading `^` / `.*`) is applied with .search(); with .match() / .fullmatch() it is
    anchored at the start as well and only matches when the whole term is that ending - "2 x 10" followed by "3" then loses its number separator"""
    import re as _re
    for modname in (PRINTER, "symplyphysics.docs.printer_code"):
        m = run.src.need(modname)
        suffix: dict = {}  # name -> set of indices (None = the name itself is the pattern)
        for st in m.tree.body:
            if not (isinstance(st, (ast.Assign, ast.AnnAssign)) and st.value is not None):
                continue
            tg = st.targets[0] if isinstance(st, ast.Assign) else st.target
            if not isinstance(tg, ast.Name):
                continue
            elts = st.value.elts if isinstance(st.value, (ast.Tuple, ast.List)) else [st.value]
            for i, e in enumerate(elts):
                if isinstance(e, ast.Call) and (dotted(e.func) or "").split(".")[-1] == "compile" and e.args and isinstance(e.args[0], ast.Constant) and isinstance(e.args[0].value, str):
                    pat = e.args[0].value
                    if pat.endswith("$") and not pat.endswith("\\$") and not pat.startswith(("^", ".*", "(?s).*")):
                        suffix.setdefault(tg.id, set()).add(i if isinstance(st.value, (ast.Tuple, ast.List)) else None)
        for name, idxs in suffix.items():
            run.ob("L14", f"{modname}:{name}")
            for fn in [f for f in ast.walk(m.tree) if isinstance(f, ast.FunctionDef)]:
                # names bound by iterating over the tuple of patterns (for p in PATS, for p, t in zip(PATS, ...))
                loop_vars = set()
                for x in ast.walk(fn):
                    its = []
                    if isinstance(x, (ast.For, ast.comprehension)):
                        its.append((x.target, x.iter))
                    for tgt, it in its:
                        src = [it] + (list(it.args) if isinstance(it, ast.Call) and dotted(it.func) in ("zip", "enumerate") else [])
                        if any(isinstance(y, ast.Name) and y.id == name for y in src):
                            loop_vars |= {y.id for y in ast.walk(tgt) if isinstance(y, ast.Name)}
                for c in [x for x in ast.walk(fn) if isinstance(x, ast.Call) and isinstance(x.func, ast.Attribute) and x.func.attr in ("match", "fullmatch")]:
                    recv = c.func.value
                    hit = (isinstance(recv, ast.Name) and ((recv.id == name and None in idxs) or recv.id in loop_vars)) or \
                        (isinstance(recv, ast.Subscript) and isinstance(recv.value, ast.Name) and recv.value.id == name and isinstance(recv.slice, ast.Constant) and recv.slice.value in idxs)
                    if hit:
                        run.violate("L14", f"{modname}:{fn.name}:{name}.{c.func.attr}", m, c,
                                    f"`{norm(c, 60)}` applies a pattern of `{name}` that tests the END of a rendered term with .{c.func.attr}(), which is anchored at the start too: the test "
                                    f"only succeeds when the whole term is that ending, so `2 x 10` followed by `3` loses its number separator (2 x 10 3)")


def _l16_signed_products(run: Run) -> None:
    """_print_Mul, evaluated on products with a factor -1: the sign is written once and a sum that stays behind keeps its brackets"""
    from dataclasses import dataclass
    from ..pyreader import PyReader, Raised
    pm = run.src.need(PRINTER)
    cls = next((c for c in pm.tree.body if isinstance(c, ast.ClassDef) and any(dotted(b) == "LatexPrinter" for b in c.bases)), None)
    run.require(cls is not None, "LaTeX printer class not found")
    meth = next((f for f in cls.body if isinstance(f, ast.FunctionDef) and f.name == "_print_Mul"), None)
    run.require(meth is not None, "SymbolLatexPrinter._print_Mul not found")
    methods = ast.Module(body=[x for x in pm.tree.body if not isinstance(x, ast.ClassDef)] + [x for x in cls.body if isinstance(x, ast.FunctionDef)], type_ignores=[])

    @dataclass(frozen=True)
    class E:
        kind: str  # num | sym | add | mul
        val: object = None
        args: tuple = ()

    ONE = E("num", 1)

    def mul(args):  # Mul(*args, evaluate=False): AssocOp._from_args - nothing is combined or dropped, but one argument is returned as it is
        args = list(args)
        if not args:
            return ONE
        if len(args) == 1:
            return args[0]
        return E("mul", None, tuple(args))

    class Me:
        pass

    class Rx:

        def __init__(self, pattern):
            self.pattern = pattern

    class SNS:
        pass

    me = Me()

    class R(PyReader):

        def ev(self, n, env, fns):
            if isinstance(n, ast.Attribute) and dotted(n) in ("S.One", "S.Zero", "S.NegativeOne") and "S" not in env:
                return E("num", {"One": 1, "NegativeOne": -1, "Zero": 0}[n.attr])
            return super().ev(n, env, fns)

        def global_value(self, n):
            if isinstance(n, ast.Name) and n.id == "S":
                return SNS()
            return super().global_value(n)

        def hook_attr(self, base, attr, n):
            if isinstance(base, SNS):
                if attr in ("One", "NegativeOne", "Zero"):
                    return E("num", {"One": 1, "NegativeOne": -1, "Zero": 0}[attr])
                self.fail(n, f"S.{attr}")
            if isinstance(base, Me) and attr == "_settings":
                return {"mul_symbol_latex": " ", "mul_symbol_latex_numbers": " \\cdot "}
            if isinstance(base, E):
                if attr == "is_Number":
                    return base.kind == "num"
                if attr in ("is_extended_negative", "is_negative"):
                    return base.kind == "num" and base.val < 0
                if attr == "is_Mul":
                    return base.kind == "mul"
                if attr == "is_Add":
                    return base.kind == "add"
                if attr in ("is_Pow", "is_Rational", "is_Relational", "is_Piecewise"):
                    return False
                if attr == "args":
                    return list(base.args)
                self.fail(n, f"attribute .{attr} of an expression")
            return NotImplemented

        def hook_unary(self, o, v, n):
            if isinstance(v, E) and isinstance(o, ast.USub):
                if v.kind == "num":
                    return E("num", -v.val)
                self.fail(n, "negation of an expression that is not a number")
            return NotImplemented

        def hook_compare(self, o, l, r, n):
            if isinstance(l, E) and isinstance(r, E) and isinstance(o, (ast.Eq, ast.NotEq, ast.Is, ast.IsNot)):
                return (l == r) == isinstance(o, (ast.Eq, ast.Is))
            return NotImplemented

        def hook_method(self, base, attr, args, kwargs, n):
            if isinstance(base, Me):
                if attr == "_print" and len(args) == 1 and isinstance(args[0], E):
                    e = args[0]
                    if e.kind == "mul":
                        return self.call("_print_Mul", [base, e])
                    return str(e.val) if e.kind in ("num", "tex") else f"<{e.val}>"
                if attr == "_needs_mul_brackets" and args and isinstance(args[0], E):
                    return args[0].kind == "add"  # SymPy's own predicate on these operands: a sum inside a product is bracketed, symbols and positive numbers are not
                if attr in self.functions:
                    return self.call(attr, [base] + list(args), kwargs)
                self.fail(n, f"printer method {attr}")
            if isinstance(base, Rx) and attr in ("search", "match", "fullmatch"):
                if args and isinstance(args[0], str):
                    return True if getattr(base.pattern, attr)(args[0]) else None  # the pattern of the source, applied to the concrete text
                self.fail(n, "number-separator pattern applied to text that is not concrete")
            return NotImplemented

        def hook_call(self, n, env, fns):
            name = dotted(n.func) or ""
            if name == "Mul" and name not in env:
                args = []
                for a in n.args:
                    if isinstance(a, ast.Starred):
                        args += list(self.ev(a.value, env, fns))
                    else:
                        args.append(self.ev(a, env, fns))
                kw = {k.arg: self.ev(k.value, env, fns) for k in n.keywords if k.arg}
                if kw.get("evaluate", True) is not False or not all(isinstance(a, E) for a in args):
                    self.fail(n, "an evaluated product")
                return mul(args)
            if name == "re.compile" and len(n.args) == 1 and isinstance(n.args[0], ast.Constant) and isinstance(n.args[0].value, str) and not n.keywords:
                return Rx(re.compile(n.args[0].value))  # the source's own pattern, applied to concrete text below
            if name == "str" and len(n.args) == 1 and "str" not in env:
                v = self.ev(n.args[0], env, fns)
                if isinstance(v, str):
                    return v
                self.fail(n, "str() of a value that is not text")
            if name == "fraction" and n.args:
                e = self.ev(n.args[0], env, fns)
                if not isinstance(e, E):
                    self.fail(n, "fraction of something that is not an expression")
                # no operand of these cases is a power, a rational or an exponential: everything is numerator. fraction(..., exact=True) rebuilds it unevaluated
                return [mul(e.args if e.kind == "mul" else [e]), ONE]
            return NotImplemented

    A, X, Y = E("add", "A"), E("sym", "x"), E("sym", "y")
    M1 = E("num", -1)
    cases = [
        ("-1 * (sum)", E("mul", None, (M1, A)), True, ["A"], []),
        ("-1 * x", E("mul", None, (M1, X)), True, [], ["x"]),
        ("-1 * x * (sum)", E("mul", None, (M1, X, A)), True, ["A"], ["x"]),
        ("-1 * (sum) * x", E("mul", None, (M1, A, X)), True, ["A"], ["x"]),
        ("x * (sum)", E("mul", None, (X, A)), False, ["A"], ["x"]),
        ("-1 * -1 * (sum)", E("mul", None, (M1, M1, A)), False, [], ["A"]),
        ("-2 * (sum)", E("mul", None, (E("num", -2), A)), True, ["A"], []),
        ("x * y", E("mul", None, (X, Y)), False, [], ["x", "y"]),
    ]
    for label, expr, negative, bracketed, present in cases:
        run.ob("L16", label)
        rd = R(methods, "printer_latex.py", depth_limit=10)
        try:
            out = rd.call("_print_Mul", [me, expr])
        except Raised as r_:
            run.violate("L16", f"{PRINTER}:_print_Mul:raises", pm, meth, f"_print_Mul raises {r_.exc} on the product {label}")
            continue
        if not isinstance(out, str):
            raise AnalysisError(f"C18/L16: _print_Mul({label}) did not evaluate to text: {out!r}")
        body = out.replace("\\left", "").replace("\\right", "")
        signs = body.count("-")
        if signs != (1 if negative else 0):
            run.violate("L16", f"{PRINTER}:_print_Mul:sign", pm, meth, f"the product {label} is rendered `{out}`: {signs} minus sign(s), its value has {'one' if negative else 'none'}")
            continue
        for nm in bracketed:
            if not re.search(r"\(\s*<" + nm + r">\s*\)", body):
                run.violate("L16", f"{PRINTER}:_print_Mul:sum-loses-brackets", pm, meth,
                            f"the product {label} is rendered `{out}`: the sum <{nm}> stands without brackets, so the sign (or the other factor) applies to its first term only "
                            f"(- a + b for -(a + b))")
        for nm in present + bracketed:
            if f"<{nm}>" not in out:
                run.violate("L16", f"{PRINTER}:_print_Mul:factor-dropped", pm, meth, f"the product {label} is rendered `{out}`: the factor <{nm}> is missing")
        if label == "-1 * x * (sum)":
            run.sample({"rule": "L16", "product": label, "rendered": out})
    # L8 by evaluation: a factor that is no Number but whose LaTeX starts with a digit (10^{n}, 3!) next to a numeric coefficient gets the number separator
    run.ob("L8", "_print_Mul(2 * <factor rendered 10^{n}>):number-separator")
    rd = R(methods, "printer_latex.py", depth_limit=10)
    try:
        out = rd.call("_print_Mul", [me, E("mul", None, (E("num", 2), E("tex", "10^{n}")))])
    except Raised as r_:
        out = r_
    if not (isinstance(out, str) and out.replace(" ", "") == "2\\cdot10^{n}"):
        run.violate("L8", f"{PRINTER}:_print_Mul:numbersep-decision", pm, meth,
                    f"2 times a factor that is rendered `10^{{n}}` comes out as `{out if isinstance(out, str) else 'raises ' + out.exc}`, not `2 \\cdot 10^{{n}}`: the number separator is not "
                    f"decided on the rendered factors - `2 10^{{n}}` reads as 210^n")


def check(run: Run) -> None:
    run.rule("L14", "a pattern that tests how a rendered term ends is applied with .search(), never with the start-anchored .match() / .fullmatch()")
    _l14_suffix_patterns(run)
    run.rule("L16", "_print_Mul, evaluated on products that carry a factor -1 (SymPy's unevaluated Mul returns a single argument as it is): the minus sign is written exactly once "
             "and a sum among the remaining factors keeps its brackets")
    run.rule("L12", "an override of SymPy's _needs_mul_brackets / _needs_brackets / _needs_function_brackets returns True or SymPy's own answer (possibly or-ed): it only adds brackets")
    run.rule("L13", "latex_str / code_str build their printer per call: no printer object is kept in a module-level name across calls (settings of one call would render the next)")
    _l12_l13(run)
    run.rule("L1", "every string template emitted by the LaTeX printer's methods is brace- and \\left/\\right-balanced on its own")
    run.rule("L2", "every display_latex= / subscript= literal and the clone/vector name templates are balanced")
    run.rule("L3", "LaTeX strings are only ever composed, never cut: no strip/partition/split/replace/slice on a name or a printed sub-result "
             "(a cut piece of a balanced string need not be balanced, which would void the induction of L1/L2)")
    run.rule("L4", "a printer method that receives an outer exponent `exp` uses it on every path that can return with exp given")
    run.rule("L5", "the printer never rounds or re-formats numbers (no precision format spec, round(), float()) - the printed number is the number")
    run.rule("L15", "in the printer's templates a value substituted right after `^` (an exponent: an arbitrary expression) is wrapped in braces (TeX takes a single token otherwise: \\sin^10 is sin^1 0)")
    run.rule("L7", "the name helpers attach a subscript to a LaTeX name as a braced group `_{...}` (an unbraced multi-character subscript is read by TeX as one token followed by a product)")
    run.rule("L8", "whether two neighbouring factors need the number separator (2 \\cdot 10^{n}) is decided on their rendered text, not on the class of the factors")
    run.rule("L9", "the minus-sign extraction never takes a sign out of the base of a power unless the exponent is tested to be odd ((-b)**(-1/2), (-b)**(-2) keep their base)")
    run.rule("L6", "no f-string of the printer emits a literal `{name}` where `name` is a variable in scope (an unsubstituted placeholder)")
    run.rule("L10", "the prefix operators IndexedSum / IndexedProduct are grouped: their printers bracket the body (parenthesize, at least product level) and the classes declare "
             "a precedence below Atom, so powers, factorials and products of a sum bracket it")
    run.rule("L11", "every attribute of a symbolic wrapper that the printers read (wrap_latex, wrap_code, factor) is part of its identity, so the rendering does not depend on which "
             "twin was constructed first")
    _l16_signed_products(run)
    from .c03 import wrapper_render_identity
    wrapper_render_identity(run, "L11")
    _l10(run)
    pm = run.src.need(PRINTER)
    classes = [c for c in pm.tree.body if isinstance(c, ast.ClassDef) and any(dotted(b) == "LatexPrinter" for b in c.bases)]
    run.require(len(classes) == 1, "LaTeX printer class not found")
    n1 = 0
    for meth in [s for s in classes[0].body if isinstance(s, ast.FunctionDef)]:
        for node, text in templates(meth):
            if not any(ch in text for ch in "{}\\"):
                continue
            n1 += 1
            run.ob("L1", f"{meth.name}:{text[:40]}")
            why = balance(text)
            if why:
                run.violate("L1", f"{PRINTER}:{meth.name}:{text[:60]}", pm, node, f"template {text!r} emitted by {meth.name} has {why}: every formula printed through it is malformed LaTeX")
            elif len(run.samples) < 8:
                run.sample({"method": meth.name, "template": text})
    run.floor("L1", n1, 20, "LaTeX templates in the printer")
    # helpers outside the class that build LaTeX (latex_str, _discard_minus_sign) carry no templates today; module-level regexes are excluded
    n2 = 0
    for m in run.src.mods.values():
        if not m.name.startswith(PKG):
            continue
        for x in ast.walk(m.tree):
            if isinstance(x, ast.Call):
                for k in x.keywords:
                    if k.arg in ("display_latex", "subscript") and isinstance(k.value, ast.Constant) and isinstance(k.value.value, str):
                        n2 += 1
                        run.ob("L2", f"{m.name}:{k.arg}:{k.value.value[:30]}")
                        why = balance(k.value.value)
                        if why:
                            run.violate("L2", f"{m.name}:{k.arg}:{k.value.value[:60]}", m, k.value,
                                        f"{k.arg}={k.value.value!r} has {why}: it is embedded verbatim into every rendering of the symbol")
                        elif k.arg == "subscript" and ("{" in k.value.value or "}" in k.value.value):
                            pass
    run.floor("L2", n2, 200, "display_latex / subscript literals")
    for modname, fname in (("symplyphysics.core.symbols.symbols", "_process_subscript_and_names"), ("symplyphysics.core.experimental.vectors", "_process_vector_names")):
        m = run.src.need(modname)
        fn = next((s for s in m.tree.body if isinstance(s, ast.FunctionDef) and s.name == fname), None)
        run.require(fn is not None, f"{modname}.{fname} not found")
        for node, text in templates(fn):
            if not any(ch in text for ch in "{}\\"):
                continue
            run.ob("L2", f"{fname}:{text[:40]}")
            why = balance(text)
            if why:
                run.violate("L2", f"{modname}:{fname}:{text[:60]}", m, node, f"name template {text!r} has {why}")
    run.notes.update({"printer_templates": n1, "display_literals": n2})
    # ---- L3
    from ..dim import World
    from ..flow import Fn, conditions_for
    w = World(run.src)
    CUT = {"strip", "lstrip", "rstrip", "partition", "rpartition", "split", "rsplit", "replace", "removeprefix", "removesuffix", "translate", "sub", "subn"}

    def cuts(fn_node):
        for x in ast.walk(fn_node):
            if isinstance(x, ast.Call) and isinstance(x.func, ast.Attribute) and x.func.attr in CUT:
                yield x, f".{x.func.attr}()", x.func.value
            if isinstance(x, ast.Subscript) and isinstance(x.slice, ast.Slice):
                yield x, "slicing", x.value

    for modname, fname in (("symplyphysics.core.symbols.symbols", "_process_subscript_and_names"), ("symplyphysics.core.experimental.vectors", "_process_vector_names")):
        m = run.src.need(modname)
        fn = next(s_ for s_ in m.tree.body if isinstance(s_, ast.FunctionDef) and s_.name == fname)
        run.ob("L3", fname)
        # helpers of the module the name helper calls are part of it; taking a name apart with a regular expression (match groups) is cutting too
        helpers = [h for h in m.tree.body if isinstance(h, ast.FunctionDef) and h is not fn
                   and any(isinstance(x, ast.Call) and isinstance(x.func, ast.Name) and x.func.id == h.name for x in ast.walk(fn))]
        regex_cuts = [(x, f"a regular expression (.{x.func.attr}())", x.func.value) for scope in [fn] + helpers for x in ast.walk(scope)
                      if isinstance(x, ast.Call) and isinstance(x.func, ast.Attribute) and x.func.attr in ("match", "search", "fullmatch", "groups", "group", "groupdict", "findall", "finditer")]
        for node, how, target in [c_ for scope in [fn] + helpers for c_ in cuts(scope)] + regex_cuts:
            run.violate("L3", f"{modname}:{fname}:{how}:{norm(target, 30)}", m, node,
                        f"{fname} cuts a name with {how} (`{norm(node, 60)}`): a display name such as `E_\\text{{kin}}` or `\\vec{{v}}_{{0}}` is balanced only as a whole; "
                        f"its pieces are not, so the composed LaTeX name can have unbalanced braces")
    # inside the printer: only strings that came out of a _print/parenthesize call are LaTeX; function *names* may be cut (asin -> sin)
    for meth in [s_ for s_ in classes[0].body if isinstance(s_, ast.FunctionDef)]:
        f = Fn(w, PRINTER, f"{classes[0].name}.{meth.name}")
        run.ob("L3", f"printer:{meth.name}")
        for node, how, target in cuts(meth):
            n = None
            for cn in f.cfg.stmt_nodes():
                if cn.ast is not None and any(y is node for y in ast.walk(cn.ast if cn.kind not in ("if", "for", "while", "test") else getattr(cn.ast, "test", getattr(cn.ast, "iter", cn.ast)))):
                    n = cn
                    break
            if n is None:
                continue
            sl = f.slice(n, target)
            printed = [c for c in sl.calls if c.startswith("self._print") or c.startswith("self.parenthesize") or c in ("self.doprint", "latex", "code_str")]
            if printed:
                run.violate("L3", f"{PRINTER}:{meth.name}:{how}:{norm(target, 30)}", pm, node,
                            f"{meth.name} cuts a printed sub-result with {how} (`{norm(node, 60)}`, value from {sorted(printed)}): pieces of balanced LaTeX need not be balanced")
    # ---- L4
    n4 = 0
    for meth in [s_ for s_ in classes[0].body if isinstance(s_, ast.FunctionDef)]:
        if "exp" not in [a.arg for a in meth.args.args] or not meth.name.startswith("_print"):
            continue  # SymPy hands the outer exponent to the _print_<Class> methods (from _print_Pow); what private helpers do with their parameters is their callers' business
        f = Fn(w, PRINTER, f"{classes[0].name}.{meth.name}")
        for r in f.cfg.returns():
            n4 += 1
            run.ob("L4", f"{meth.name}:{norm(r.ast, 40)}")
            sl = f.slice(r, r.ast.value) if r.ast.value is not None else None
            if sl is not None and "exp" in sl.params:
                continue
            conds = conditions_for(f.fn, r.ast) or []
            if any(_exp_is_none(c, pol) for c, pol in conds):
                continue
            run.violate("L4", f"{PRINTER}:{meth.name}:return:{norm(r.ast, 50)}", pm, r.ast,
                        f"{meth.name} can `{norm(r.ast, 60)}` although an outer exponent was passed in `exp`: f(x)**n is then printed as f(x) - a different value")
    run.floor("L4", n4, 4, "returns of printer methods taking an outer exponent")
    # ---- L6
    from .c19 import unsubstituted_placeholders
    for meth in [s_ for s_ in classes[0].body if isinstance(s_, ast.FunctionDef)]:
        run.ob("L6", meth.name)
        for node, name in unsubstituted_placeholders(meth):
            run.violate("L6", f"{PRINTER}:{meth.name}:literal-{{{name}}}", pm, node,
                        f"f-string `{norm(node, 70)}` in {meth.name} emits the literal text `{{{name}}}` although `{name}` is a variable in scope: its value is not printed")
    _l7_l8(run, pm, classes)
    from ..flow import conditions_for as _cf, stmt_of as _so
    n9 = 0
    for fn9 in [x for x in ast.walk(pm.tree) if isinstance(x, ast.FunctionDef) and "minus_sign" in x.name]:
        n9 += 1
        run.ob("L9", fn9.name)
        for a9 in [x for x in ast.walk(fn9) if isinstance(x, ast.Attribute) and x.attr == "base"]:
            st9 = _so(fn9, a9)
            conds9 = [t for t, pol in (_cf(fn9, st9) or []) if not isinstance(t, str) and pol]
            odd = any(isinstance(y, ast.Attribute) and y.attr in ("is_odd", ) for t in conds9 for y in ast.walk(t)) or \
                any(isinstance(y, ast.BinOp) and isinstance(y.op, ast.Mod) for t in conds9 for y in ast.walk(t))
            if not odd:
                run.violate("L9", f"{PRINTER}:{fn9.name}:power-base", pm, a9,
                            f"{fn9.name} looks for a minus sign inside the base of a power (`{norm(st9, 60)}`) without testing that the exponent is an odd integer: "
                            f"a/sqrt(-b) would be printed as -a/sqrt(b), a*(-3)**(-2) as -a/9")
    run.floor("L9", n9, 2, "minus-sign helpers of the LaTeX printer")
    # ---- L5
    for meth in [s_ for s_ in classes[0].body if isinstance(s_, ast.FunctionDef)]:
        run.ob("L5", meth.name)
        for x in ast.walk(meth):
            bad = None
            if isinstance(x, ast.FormattedValue) and x.format_spec is not None:
                spec = "".join(v.value for v in x.format_spec.values if isinstance(v, ast.Constant) and isinstance(v.value, str))
                if re.search(r"\.\d+|[eEfFgG%]$", spec):
                    bad = f"format spec `:{spec}`"
            if isinstance(x, ast.Call) and isinstance(x.func, ast.Name) and x.func.id in ("round", "float", "int") and x.args \
                    and not isinstance(x.args[0], ast.Constant):
                bad = f"{x.func.id}()"
            if isinstance(x, ast.Call) and isinstance(x.func, ast.Attribute) and x.func.attr in ("evalf", "n", "round") and meth.name.startswith("_print"):
                bad = f".{x.func.attr}()"
            if isinstance(x, ast.BinOp) and isinstance(x.op, ast.Mod) and isinstance(x.left, ast.Constant) and isinstance(x.left.value, str) \
                    and re.search(r"%[-#0 +]*\d*(\.\d+)?[eEfFgGd]", x.left.value):
                bad = f"numeric %-format `{x.left.value}`"
            if bad:
                run.violate("L5", f"{PRINTER}:{meth.name}:{bad}", pm, x,
                            f"{meth.name} re-formats a number with {bad}: digits are dropped or the notation changes (1e+20 read as mathematics is e*1+20), "
                            f"so the rendering no longer denotes the same value")


def _exp_is_none(cond, pol: bool) -> bool:
    """does the branch condition (cond taken with polarity pol) imply `exp is None`?"""
    if isinstance(cond, ast.Compare) and len(cond.ops) == 1 and isinstance(cond.left, ast.Name) and cond.left.id == "exp" \
            and isinstance(cond.comparators[0], ast.Constant) and cond.comparators[0].value is None:
        if isinstance(cond.ops[0], ast.Is):
            return pol is True
        if isinstance(cond.ops[0], ast.IsNot):
            return pol is False
    if isinstance(cond, ast.UnaryOp) and isinstance(cond.op, ast.Not) and isinstance(cond.operand, ast.Name) and cond.operand.id == "exp":
        return pol is True
    if isinstance(cond, ast.Name) and cond.id == "exp":
        return pol is False
    return False


def _l7_l8(run: Run, pm, classes) -> None:
    # ---- L7
    for modname, fname in (("symplyphysics.core.symbols.symbols", "_process_subscript_and_names"), ("symplyphysics.core.experimental.vectors", "_process_vector_names")):
        m = run.src.need(modname)
        fn = next(s_ for s_ in m.tree.body if isinstance(s_, ast.FunctionDef) and s_.name == fname)
        n = 0
        for js in [x for x in ast.walk(fn) if isinstance(x, ast.JoinedStr)]:
            names = {y.id for v in js.values if isinstance(v, ast.FormattedValue) for y in ast.walk(v.value) if isinstance(y, ast.Name)}
            to_latex = any(isinstance(a_, ast.Assign) and a_.value is js and any("latex" in (dotted(t_) or "") for t_ in a_.targets) for a_ in ast.walk(fn))
            has_cmd = any(isinstance(v, ast.Constant) and isinstance(v.value, str) and "\\" in v.value for v in js.values)
            if not (any("latex" in nm for nm in names) or to_latex or has_cmd):
                continue  # a code-name template: `name_sub` is the code spelling
            for a, b in zip(js.values, js.values[1:]):
                if isinstance(b, ast.FormattedValue) and isinstance(a, ast.Constant) and isinstance(a.value, str) and a.value and a.value[-1] in "_^":
                    n += 1
                    run.ob("L7", f"{fname}:{norm(js, 40)}")
                    run.violate("L7", f"{modname}:{fname}:unbraced-script:{norm(js, 50)}", m, js,
                                f"LaTeX name template `{norm(js, 60)}` attaches `{norm(b.value, 20)}` after `{a.value[-1]}` without braces: for a name that already contains braces "
                                f"(\\mathcal{{E}}, E_\\text{{k}}) the printer prints it verbatim, and TeX reads `\\mathcal{{E}}_12` as E_1 times 2")
                elif isinstance(b, ast.FormattedValue) and isinstance(a, ast.Constant) and isinstance(a.value, str) and (a.value.endswith("_{") or a.value.endswith("^{")):
                    n += 1
                    run.ob("L7", f"{fname}:{norm(js, 40)}")
        run.floor("L7", n, 1, f"script placeholders in the LaTeX templates of {fname}")
    # ---- L15: the same for the printer's own templates: a value substituted right after `^` or `_` is a braced group
    import re as _re
    n15 = 0
    for meth in [s_ for s_ in classes[0].body if isinstance(s_, ast.FunctionDef)]:
        for js in [x for x in ast.walk(meth) if isinstance(x, ast.JoinedStr)]:
            for a, b in zip(js.values, js.values[1:]):
                if isinstance(b, ast.FormattedValue) and isinstance(a, ast.Constant) and isinstance(a.value, str) and a.value:
                    if a.value.endswith("^{"):
                        n15 += 1
                        run.ob("L15", f"{meth.name}:{norm(js, 40)}")
                    elif a.value[-1] == "^" and not a.value.endswith("\\^"):
                        n15 += 1
                        run.ob("L15", f"{meth.name}:{norm(js, 40)}")
                        run.violate("L15", f"{PRINTER}:{meth.name}:unbraced-script:{norm(js, 50)}", pm, js,
                                    f"the template `{norm(js, 60)}` of {meth.name} puts `{norm(b.value, 20)}` right after `{a.value[-1]}` without braces: TeX takes one token, so an exponent "
                                    f"such as 10, a + b or -1 is split (\\sin^10 x is sin^1 followed by 0): the braces stay balanced and the meaning changes")
        for c in [x for x in ast.walk(meth) if isinstance(x, ast.BinOp) and isinstance(x.op, ast.Mod) and isinstance(x.left, ast.Constant) and isinstance(x.left.value, str)]:
            for mm_ in _re.finditer(r"(\^)(\{?)%[sdr]", c.left.value):
                n15 += 1
                run.ob("L15", f"{meth.name}:{c.left.value[:40]}")
                if not mm_.group(2):
                    run.violate("L15", f"{PRINTER}:{meth.name}:unbraced-script:{c.left.value[:50]}", pm, c,
                                f"the template {c.left.value!r} of {meth.name} puts a substituted value right after `{mm_.group(1)}` without braces: TeX takes one token, so a multi-token "
                                f"exponent or subscript is split")
    run.floor("L15", n15, 3, "script placeholders in the printer's templates")
    # ---- L8
    mul = next((s_ for s_ in classes[0].body if isinstance(s_, ast.FunctionDef) and s_.name == "_print_Mul"), None)
    run.require(mul is not None, "_print_Mul not found in the LaTeX printer")
    from ..flow import CFG
    hits = 0
    # _print_Mul itself, its nested helpers, and every method of the printer it calls through `self.` (a closure hoisted into a method is the same decision)
    called = {c.func.attr for c in ast.walk(mul) if isinstance(c, ast.Call) and isinstance(c.func, ast.Attribute) and dotted(c.func.value) == "self"}
    scopes = [x for x in ast.walk(mul) if isinstance(x, ast.FunctionDef)] + [x for x in classes[0].body if isinstance(x, ast.FunctionDef) and x.name in called and x is not mul]
    # the names the separator for numbers goes by: locals bound to self._settings["mul_symbol_latex_numbers"], and parameters those are passed to
    numbersep_names = {"numbersep"}
    for sc in [mul] + scopes:
        for a_ in ast.walk(sc):
            if isinstance(a_, (ast.Assign, ast.AnnAssign)) and a_.value is not None and any(isinstance(c_, ast.Constant) and c_.value == "mul_symbol_latex_numbers" for c_ in ast.walk(a_.value)):
                tg_ = a_.targets[0] if isinstance(a_, ast.Assign) else a_.target
                if isinstance(tg_, ast.Name):
                    numbersep_names.add(tg_.id)
    for fn in [y for sc in scopes for y in ast.walk(sc) if isinstance(y, ast.FunctionDef)]:
        cfg = CFG(fn)
        for node in cfg.stmt_nodes():
            a = node.ast
            if node.kind == "test" and isinstance(a, ast.If) and any(isinstance(x, ast.AugAssign) and isinstance(x.value, ast.Name) and x.value.id in numbersep_names for x in a.body):
                hits += 1
                run.ob("L8", f"{fn.name}:number-separator-decision")
                sl = cfg.slice(node, [a.test])
                rendered = [c for c in sl.calls if c.startswith("self._print") or c.startswith("self.parenthesize")]
                if not rendered:
                    run.violate("L8", f"{PRINTER}:_print_Mul:numbersep-decision", pm, a.test,
                                f"the number separator is chosen by `{norm(a.test, 70)}`, which does not look at the rendered factors: a factor that is not a Number but whose LaTeX "
                                f"starts with a digit (10^{{n}}, 3!, 1\\,\\text{{Gyr}}) is juxtaposed to a numeric coefficient - `2 10^{{n}}` reads as 210^n")
    if hits == 0:
        run.notes["L8"] = "no `if ...: tex += <separator for numbers>` statement recognised in _print_Mul: L8 rests on the evaluation of _print_Mul(2 * 10^{n}) alone"
