"""C18 - LaTeX rendering: well-formedness clause only (balanced braces, matched \\left/\\right), by induction on the printer (E0/E3)."""
from __future__ import annotations

import ast
import re

from ..core import Run, AnalysisError, dotted, norm, PKG

EXPLANATION = (
    "Decides only the well-formedness clause of C18 (balanced braces, matched \\left/\\right), by induction over the custom "
    "printer: L1 every string template emitted by the methods of the LaTeX printer class (f-strings with their placeholders "
    "removed, %-format strings, plain literals) is brace-balanced and \\left/\\right-balanced on its own, so any concatenation / "
    "formatting of balanced pieces with balanced sub-results is balanced; L2 every display_latex= and subscript= literal in the "
    "package (they are embedded verbatim) and the name templates of _process_subscript_and_names / _process_vector_names are "
    "balanced. Meaning preservation (brackets where needed, signs, fractions) is NOT decided: it depends on SymPy predicates "
    "applied to run-time expression trees.")
ASSUMPTIONS = ["SymPy's own LatexPrinter emits balanced output for balanced sub-results", "only the well-formedness clause is claimed"]
TRUSTED = ["sympy.printing.latex.LatexPrinter", "python ast"]

PRINTER = "symplyphysics.docs.printer_latex"


def balance(s: str) -> str | None:
    """None when `s` has balanced braces and matched \\left/\\right, else a reason."""
    depth = 0
    i = 0
    while i < len(s):
        ch = s[i]
        if ch == "\\" and i + 1 < len(s):
            i += 2  # escaped character (\{ \} \\ \l...) - a command letter is skipped harmlessly
            continue
        if ch == "{":
            depth += 1
        elif ch == "}":
            depth -= 1
            if depth < 0:
                return "a closing brace without an opening one"
        i += 1
    if depth != 0:
        return f"{depth} unclosed brace(s)"
    lr = 0
    for m in re.finditer(r"\\(left|right)(?![A-Za-z])", s):
        lr += 1 if m.group(1) == "left" else -1
        if lr < 0:
            return "\\right without \\left"
    if lr != 0:
        return f"{lr} \\left without \\right"
    return None


def templates(fn: ast.AST) -> list[tuple[ast.AST, str]]:
    """String templates in a function: f-strings as one template (placeholders removed), %-formats with specs removed, literals."""
    out = []
    inside_joined = set()
    for x in ast.walk(fn):
        if isinstance(x, ast.JoinedStr):
            text = ""
            for v in x.values:
                if isinstance(v, ast.Constant) and isinstance(v.value, str):
                    text += v.value
                    inside_joined.add(id(v))
                elif isinstance(v, ast.FormattedValue) and v.format_spec is not None:
                    for w in ast.walk(v.format_spec):
                        inside_joined.add(id(w))
            out.append((x, text))
    doc = ast.get_docstring(fn) if isinstance(fn, (ast.FunctionDef, ast.ClassDef, ast.Module)) else None
    for x in ast.walk(fn):
        if isinstance(x, ast.Constant) and isinstance(x.value, str) and id(x) not in inside_joined:
            if doc is not None and x.value.strip() == doc.strip():
                continue
            text = re.sub(r"%(\([^)]*\))?[-#0 +]*\d*(\.\d+)?[sdrf]", "", x.value)
            out.append((x, text))
    return out


def check(run: Run) -> None:
    run.rule("L1", "every string template emitted by the LaTeX printer's methods is brace- and \\left/\\right-balanced on its own")
    run.rule("L2", "every display_latex= / subscript= literal and the clone/vector name templates are balanced")
    pm = run.src.need(PRINTER)
    classes = [c for c in pm.tree.body if isinstance(c, ast.ClassDef) and any(dotted(b) == "LatexPrinter" for b in c.bases)]
    run.require(len(classes) == 1, "LaTeX printer class not found")
    n1 = 0
    for meth in [s for s in classes[0].body if isinstance(s, ast.FunctionDef)]:
        for node, text in templates(meth):
            if not any(ch in text for ch in "{}\\"):
                continue
            n1 += 1
            run.ob("L1", f"{meth.name}:{text[:40]}")
            why = balance(text)
            if why:
                run.violate("L1", f"{PRINTER}:{meth.name}:{text[:60]}", pm, node, f"template {text!r} emitted by {meth.name} has {why}: every formula printed through it is malformed LaTeX")
            elif len(run.samples) < 8:
                run.sample({"method": meth.name, "template": text})
    run.floor("L1", n1, 20, "LaTeX templates in the printer")
    # helpers outside the class that build LaTeX (latex_str, _discard_minus_sign) carry no templates today; module-level regexes are excluded
    n2 = 0
    for m in run.src.mods.values():
        if not m.name.startswith(PKG):
            continue
        for x in ast.walk(m.tree):
            if isinstance(x, ast.Call):
                for k in x.keywords:
                    if k.arg in ("display_latex", "subscript") and isinstance(k.value, ast.Constant) and isinstance(k.value.value, str):
                        n2 += 1
                        run.ob("L2", f"{m.name}:{k.arg}:{k.value.value[:30]}")
                        why = balance(k.value.value)
                        if why:
                            run.violate("L2", f"{m.name}:{k.arg}:{k.value.value[:60]}", m, k.value,
                                        f"{k.arg}={k.value.value!r} has {why}: it is embedded verbatim into every rendering of the symbol")
                        elif k.arg == "subscript" and ("{" in k.value.value or "}" in k.value.value):
                            pass
    run.floor("L2", n2, 200, "display_latex / subscript literals")
    for modname, fname in (("symplyphysics.core.symbols.symbols", "_process_subscript_and_names"), ("symplyphysics.core.experimental.vectors", "_process_vector_names")):
        m = run.src.need(modname)
        fn = next((s for s in m.tree.body if isinstance(s, ast.FunctionDef) and s.name == fname), None)
        run.require(fn is not None, f"{modname}.{fname} not found")
        for node, text in templates(fn):
            if not any(ch in text for ch in "{}\\"):
                continue
            run.ob("L2", f"{fname}:{text[:40]}")
            why = balance(text)
            if why:
                run.violate("L2", f"{modname}:{fname}:{text[:60]}", m, node, f"name template {text!r} has {why}")
    run.notes.update({"printer_templates": n1, "display_literals": n2})
