"""C11 - changing coordinate system preserves vectors and scalar fields: tables, curvilinear formulas, refusals (E4 + E3)."""
from __future__ import annotations

import ast
import itertools

from ..core import Run, AnalysisError, dotted, norm
from fractions import Fraction
from ..alg import T, num, var, op, normalize, substitute, same, same_terms, C, Rat, eval_term
from ..reader import ExprReader, SYSTEMS
from ..pyreader import static_methods, PyReader, VVal, Sys, Raised
from ..dim import World
from ..flow import Fn, node_calls, conditions_for, stmt_of, has_subscript
from .c12 import H

EXPLANATION = (
    "T1 the transformation tuples of CoordinateSystem.transformation_to_system are read into terms and equal, in exact normal "
    "form (lengths as rational functions with radicals, angles through their sine and cosine), this library's convention "
    "(cylindrical (r, theta, z); spherical (r, theta = azimuth, phi = polar)); composing Cartesian -> curvilinear -> Cartesian is "
    "the identity on x, y, z; T2 the cylindrical and spherical branches of dot_vectors and scale_vector (evaluated abstractly on "
    "generic components, lengths 0..3) equal the Cartesian dot / scaling of the transformed components; T3 direct "
    "cylindrical <-> spherical conversion has no table entry and falls through to an unconditional raise ValueError; T4 "
    "ScalarField.__call__ / VectorField.__call__ refuse each (point class, system kind) mismatch before calling the field "
    "function (complete 3-entry table, dominance); T5 Vector.rebase and ScalarField.rebase substitute all three base scalars, "
    "in opposite directions - decided by evaluating both methods abstractly up to the hand-over to sympy.vector.express: the "
    "value handed over is the table with every base scalar replaced AT ONCE by the matching component (0 for a missing one), resp. "
    "the field expression with the old scalars expressed in the new ones; T7/T8 _subs_with_point of both field classes, evaluated "
    "abstractly for points with 0..3 coordinates, replaces every base scalar by the point's coordinate (0 for a missing one), at once - "
    "also for the point (q1, q2, q0) written in the system's own base scalars; T6 the scale factors and orientation used as reference by C12 follow from the same table "
    "(h_i^2 = sum_j (dx_j/dq_i)^2, det J = s h1 h2 h3). What sympy.vector.express does afterwards, and singular points, are not decided.")
ASSUMPTIONS = ["library convention for the angle names as documented in coordinate_systems.py", "radial coordinates non-negative",
               "sympy.vector.express is trusted"]
TRUSTED = ["python ast", "sa/alg.py normal form", "sa/pyreader.py abstract evaluator", "sympy.vector.express"]

CS = "symplyphysics.core.coordinate_systems.coordinate_systems"
AR = "symplyphysics.core.vectors.arithmetics"


def q(i: int) -> T:
    return var(f"q{i}")


def reference(frm: str, to: str) -> list:
    if frm == to:
        return [q(0), q(1), q(2)]
    if (frm, to) == ("CYLINDRICAL", "CARTESIAN"):
        return [op("mul", q(0), op("cos", q(1))), op("mul", q(0), op("sin", q(1))), q(2)]
    if (frm, to) == ("SPHERICAL", "CARTESIAN"):
        return [op("mul", op("mul", q(0), op("cos", q(1))), op("sin", q(2))), op("mul", op("mul", q(0), op("sin", q(1))), op("sin", q(2))), op("mul", q(0), op("cos", q(2)))]
    s2 = op("add", op("mul", q(0), q(0)), op("mul", q(1), q(1)))
    if (frm, to) == ("CARTESIAN", "CYLINDRICAL"):
        return [op("sqrt", s2), op("atan2", q(1), q(0)), q(2)]
    if (frm, to) == ("CARTESIAN", "SPHERICAL"):
        s3 = op("add", s2, op("mul", q(2), q(2)))
        return [op("sqrt", s3), op("atan2", q(1), q(0)), op("acos", op("div", q(2), op("sqrt", s3)))]
    raise KeyError((frm, to))


ANGLE_SLOTS = {"CARTESIAN": (), "CYLINDRICAL": (1, ), "SPHERICAL": (1, 2)}


class _CS:
    """`self` of a CoordinateSystem of a given kind"""

    def __init__(self, kind: str):
        self.kind = kind


class TableReader(PyReader):
    """evaluates CoordinateSystem.transformation_to_system (and whatever private helpers / tables it uses) with the base scalars q0, q1, q2"""

    def hook_attr(self, base, attr, n):
        if isinstance(base, _CS):
            if attr in ("_coord_system_type", "coord_system_type"):
                return ("kind", base.kind)
            if attr == "System":
                return ("system-enum", )
            if attr in ("_coord_system", "coord_system"):
                return ("coordsys3d", base.kind)
            if attr in self.functions:
                return ("bound", attr, base)
        if base == ("system-enum", ) and attr in SYSTEMS:
            return ("kind", attr)
        return NotImplemented

    def hook_method(self, base, attr, args, kwargs, n):
        if isinstance(base, tuple) and base and base[0] == "coordsys3d" and attr == "base_scalars" and not args:
            return [q(0), q(1), q(2)]
        return NotImplemented

    def hook_call(self, n, env, fns):
        f = dotted(n.func) or ""
        if f.split(".")[-1] in ("atan2", "acos", "asin", "atan") and not n.keywords:
            return op(f.split(".")[-1], *[self.scalar(self.ev(a, env, fns), n) for a in n.args])
        return NotImplemented


def read_tables(run: Run):
    """the transformation answered for every (own kind, target kind), obtained by evaluating transformation_to_system: `tables` holds the triples,
    `refused` the pairs that raise, `nothing` the pairs for which the function returns without a value"""
    mod = run.src.need(CS)
    cls = next((s for s in mod.tree.body if isinstance(s, ast.ClassDef) and s.name == "CoordinateSystem"), None)
    run.require(cls is not None, "class CoordinateSystem not found")
    fn = next((s for s in cls.body if isinstance(s, ast.FunctionDef) and s.name == "transformation_to_system"), None)
    run.require(fn is not None, "transformation_to_system not found")
    mm = _methods_module(mod, "CoordinateSystem")
    tables, outcome = {}, {}
    for frm in SYSTEMS:
        for to in SYSTEMS:
            R = TableReader(mm, f"transformation_to_system[{frm}->{to}]")
            try:
                got = R.call("transformation_to_system", [_CS(frm), ("kind", to)])
            except Raised as r:
                outcome[(frm, to)] = ("raises", r.exc)
                continue
            if got is None:
                outcome[(frm, to)] = ("none", None)
                continue
            if not (isinstance(got, list) and len(got) == 3 and all(isinstance(x, (T, int)) for x in got)):
                raise AnalysisError(f"C11: transformation_to_system {frm}->{to} evaluates to {got!r}, not a triple")
            tables[(frm, to)] = [x if isinstance(x, T) else num(x) for x in got]
            outcome[(frm, to)] = ("triple", None)
    return mod, fn, tables, outcome


def same_entry(a: T, b: T, angle: bool) -> bool:
    if not angle:
        return same(normalize(a), normalize(b))
    return same(normalize(op("sin", a)), normalize(op("sin", b))) and same(normalize(op("cos", a)), normalize(op("cos", b)))


def check(run: Run) -> None:
    for rid, text in [
        ("T1", "transformation tuples equal this library's convention; Cartesian -> curvilinear -> Cartesian is the identity"),
        ("T2", "curvilinear dot_vectors / scale_vector equal the Cartesian operation on the transformed components"),
        ("T3", "cylindrical <-> spherical is refused: no table entry, fall-through raises ValueError"),
        ("T4", "fields refuse each (point class, system kind) mismatch before evaluating the field function"),
        ("T5", "Vector.rebase / ScalarField.rebase hand sympy the transformation with all three base scalars replaced at once, in opposite directions"),
        ("T6", "scale factors and orientation used by C12 follow from the transformation table"),
        ("T7", "evaluating an expression-backed field at a point replaces every base scalar by the point's coordinate (0 for a missing one)"),
        ("T10", "a field built by VectorField.from_vector / ScalarField.from_expression gives the same answer every time it is applied"),
        ("T8", "... simultaneously: coordinates that mention the system's own base scalars (trajectories such as [y, x + 5]) are not substituted again"),
    ]:
        run.rule(rid, text)
    mod, fn, tables, outcome = read_tables(run)
    want_pairs = [("CYLINDRICAL", "CARTESIAN"), ("SPHERICAL", "CARTESIAN"), ("CARTESIAN", "CYLINDRICAL"), ("CARTESIAN", "SPHERICAL"),
                  ("CARTESIAN", "CARTESIAN"), ("CYLINDRICAL", "CYLINDRICAL"), ("SPHERICAL", "SPHERICAL")]
    for frm, to in want_pairs:
        run.ob("T1", f"{frm}->{to}")
        if (frm, to) not in tables:
            run.violate("T1", f"{CS}:table:{frm}->{to}:missing", mod, fn, f"no transformation entry {frm.lower()} -> {to.lower()}")
            continue
        ref = reference(frm, to)
        for i in range(3):
            run.ob("T1", f"{frm}->{to}[{i}]")
            if not same_entry(tables[(frm, to)][i], ref[i], i in ANGLE_SLOTS[to]):
                run.violate("T1", f"{CS}:table:{frm}->{to}[{i}]", mod, fn,
                            f"component {i} of the {frm.lower()} -> {to.lower()} transformation is `{tables[(frm, to)][i]!r}`, "
                            f"which differs from the convention {ref[i]!r}")
        run.sample({"transformation": f"{frm}->{to}", "entries": [repr(x) for x in tables[(frm, to)]]})
    for cur in ("CYLINDRICAL", "SPHERICAL"):
        if ("CARTESIAN", cur) in tables and (cur, "CARTESIAN") in tables:
            inner = tables[("CARTESIAN", cur)]
            comp = [substitute(t, {f"q{k}": inner[k] for k in range(3)}) for t in tables[(cur, "CARTESIAN")]]
            for i in range(3):
                run.ob("T1", f"roundtrip:CARTESIAN->{cur}->CARTESIAN[{i}]")
                if not same(normalize(comp[i]), normalize(q(i))):
                    run.violate("T1", f"{CS}:roundtrip:{cur}[{i}]", mod, fn, f"Cartesian -> {cur.lower()} -> Cartesian does not return coordinate {i}: {normalize(comp[i])!r}")
    # ---- T3 (by evaluation: what the function does for the two unsupported pairs)
    for pair in (("CYLINDRICAL", "SPHERICAL"), ("SPHERICAL", "CYLINDRICAL")):
        run.ob("T3", f"refused:{pair[0]}->{pair[1]}")
        kind_, _ = outcome[pair]
        if kind_ == "triple":
            run.violate("T3", f"{CS}:table:{pair[0]}->{pair[1]}:present", mod, fn, f"a direct {pair[0].lower()} -> {pair[1].lower()} transformation is answered; the property requires it to be refused")
        elif kind_ == "none":
            run.violate("T3", f"{CS}:transformation_to_system:returns-none", mod, fn,
                        f"{pair[0].lower()} -> {pair[1].lower()}: a table miss is returned (as None) instead of falling through to the refusal")
    # ---- T2
    amod = run.src.need(AR)
    R = PyReader(amod.tree, where="arithmetics.py")
    csm = run.src.need("symplyphysics.core.coordinate_systems.coordinate_systems")
    R.extern_static = static_methods(next(c_ for c_ in csm.tree.body if isinstance(c_, ast.ClassDef) and c_.name == "CoordinateSystem"))
    R.extern_modules = [csm.tree]

    mutated = set()

    def call(fname, *args):
        before = [list(a.components) if isinstance(a, VVal) else None for a in args]
        try:
            return R.call(fname, list(args))
        except Raised as r:
            return r
        finally:
            # an operand is a value: whatever the function returns, the caller's vector must be what it was (Vector.components hands out the vector's own list)
            for a, b in zip(args, before):
                if b is not None and (len(a.components) != len(b) or any(x is not y and repr(x) != repr(y) for x, y in zip(a.components, b))) and fname not in mutated:
                    mutated.add(fname)
                    run.violate("T2", f"{AR}:{fname}:mutates-operand", amod, amod.tree,
                                f"{fname} changes the components of its {a.system.kind.lower()} operand in place ({b!r} -> {a.components!r}): every later use of that vector "
                                f"(a second scaling, its re-expression in Cartesian coordinates, its magnitude) sees the changed vector")

    def to_cart(kind: str, comps: list) -> list:
        full = list(comps) + [num(0)] * (3 - len(comps))
        return [substitute(t, {f"q{k}": full[k] for k in range(3)}) for t in tables[(kind, "CARTESIAN")]]

    for kind in ("CYLINDRICAL", "SPHERICAL"):
        if (kind, "CARTESIAN") not in tables:
            continue
        cs = Sys("k" + kind, kind)
        for m, n in itertools.product(range(4), repeat=2):
            A = VVal([var(f"a{i}") for i in range(m)], cs)
            B = VVal([var(f"b{i}") for i in range(n)], cs)
            run.ob("T2", f"dot:{kind}[{m},{n}]")
            got = call("dot_vectors", A, B)
            ca, cb = to_cart(kind, A.components), to_cart(kind, B.components)
            want = num(0)
            for x, y in zip(ca, cb):
                want = op("add", want, op("mul", x, y))
            if isinstance(got, Raised) or not same_terms(got, want):
                run.violate("T2", f"{AR}:dot_vectors:{kind}[{m},{n}]", amod, amod.tree,
                            f"the {kind.lower()} dot product of vectors with {m} and {n} components differs from the Cartesian dot product of the re-expressed vectors: "
                            f"{'raises ' + got.exc if isinstance(got, Raised) else repr(got)[:200]} vs {normalize(want)!r}")
            if n == 0:
                # a generic scalar and concrete ones of either sign (code may special-case the sign of the factor)
                from fractions import Fraction as _F
                for s, sname in ((var("s"), "s"), (num(-2), "-2"), (num(_F(3, 2)), "3/2"), (num(_F(-5, 2)), "-5/2")):
                    run.ob("T2", f"scale:{kind}[{m}]*{sname}")
                    A2 = VVal(list(A.components), cs)
                    sc = call("scale_vector", s, A2)
                    if isinstance(sc, Raised) or not all(same_terms(x, op("mul", s, y)) for x, y in zip(to_cart(kind, sc.components), ca)):
                        run.violate("T2", f"{AR}:scale_vector:{kind}[{m}]", amod, amod.tree,
                                    f"scaling a {kind.lower()} vector with {m} components by {sname} is not the scaling of the re-expressed Cartesian vector")
                run.ob("T2", f"magnitude:{kind}[{m}]")
                mg = call("vector_magnitude", A)
                sq = num(0)
                for x in ca:
                    sq = op("add", sq, op("mul", x, x))
                if isinstance(mg, Raised) or not same_terms(op("mul", mg, mg), sq):
                    run.violate("T2", f"{AR}:vector_magnitude:{kind}[{m}]", amod, amod.tree, f"the magnitude of a {kind.lower()} vector with {m} components differs from the Cartesian magnitude")
                if m >= 1:
                    # ... and it is a magnitude: non-negative also for a negative radial component (scale_vector(-1, v) produces one), where the comparison of squares is blind
                    run.ob("T2", f"magnitude-sign:{kind}[{m}]")
                    A3 = VVal([num(-3)] + [var(f"a{i}") for i in range(1, m)], cs)
                    ca3 = to_cart(kind, A3.components)
                    sq3 = num(0)
                    for x in ca3:
                        sq3 = op("add", sq3, op("mul", x, x))
                    mg3 = call("vector_magnitude", A3)
                    ok3 = not isinstance(mg3, Raised) and same_terms(op("mul", mg3, mg3), sq3)
                    if ok3:
                        try:
                            val = eval_term(substitute(mg3, {f"a{i}": num(Fraction(1 + i, 3)) for i in range(1, m)}), {})
                            ok3 = abs(val.imag) < 1e-12 and val.real > 0
                        except (AnalysisError, ZeroDivisionError, ValueError, TypeError):
                            ok3 = True  # not decidable numerically: the squares agreed, nothing is reported
                    if not ok3:
                        run.violate("T2", f"{AR}:vector_magnitude:{kind}[{m}]:sign", amod, amod.tree,
                                    f"the magnitude of the {kind.lower()} vector with radial component -3 is not the (positive) Cartesian magnitude: "
                                    f"{'raises ' + mg3.exc if isinstance(mg3, Raised) else repr(mg3)[:120]}")
    # ---- T6
    for kind in ("CYLINDRICAL", "SPHERICAL"):
        if (kind, "CARTESIAN") not in tables:
            continue
        names = SYSTEMS[kind]
        hs, sign = H[kind]
        ren = {names[k]: q(k) for k in range(3)}
        pos = tables[(kind, "CARTESIAN")]
        J = [[normalize(op("diff", pos[j], q(i))) for j in range(3)] for i in range(3)]
        for i in range(3):
            run.ob("T6", f"h_{i}:{kind}")
            hh = normalize(substitute(hs[i], ren))
            ssum = C(0)
            for j in range(3):
                ssum = ssum + J[i][j] * J[i][j]
            if not same(hh * hh, ssum):
                run.violate("T6", f"{CS}:scale-factor:{kind}[{i}]", mod, fn, f"the scale factor h_{i} assumed for the {kind.lower()} operators ({hh!r}) is not the length of dP/dq_{i} of the transformation table ({ssum!r} squared)")
        det = J[0][0] * (J[1][1] * J[2][2] - J[1][2] * J[2][1]) - J[0][1] * (J[1][0] * J[2][2] - J[1][2] * J[2][0]) + J[0][2] * (J[1][0] * J[2][1] - J[1][1] * J[2][0])
        prod = normalize(substitute(op("mul", op("mul", hs[0], hs[1]), hs[2]), ren)) * C(sign)
        run.ob("T6", f"orientation:{kind}")
        if not same(det, prod):
            run.violate("T6", f"{CS}:orientation:{kind}", mod, fn, f"the Jacobian determinant of the {kind.lower()} table ({det!r}) is not s*h1*h2*h3 with s = {sign}")
    # ---- T4 (by evaluation): a field whose point function is a callable is applied to a point of every class under every system kind
    _t4(run)
    _t9_factories(run)
    # ---- T5 / T7 / T8: the substitution steps, evaluated abstractly (whatever their code shape)
    _substitutions(run, tables)


class _Stop(Exception):

    def __init__(self, value):
        self.value = value


class _Point:

    def __init__(self, coords: list):
        self.coords = list(coords)


class _Field:

    def __init__(self, system: Sys, expr: T):
        self.system = system
        self.expr = expr


def scalars_of(sysv: Sys) -> list:
    return [var(f"{sysv.ident}_s{k}") for k in range(3)]


class SubsReader(PyReader):
    """pyreader + the objects the substitution steps touch: coordinate systems (base scalars, transformation table as read for
    T1), points (coordinate accessor semantics of core/points/point.py: 0 beyond the given coordinates), fields. Evaluation
    stops where the value leaves the repository's own code (sympy.vector.express / to_sympy_vector): the value handed over is
    what is judged."""

    def __init__(self, module, where, tables):
        super().__init__(module, where)
        self.tables = tables
        self.directions: list = []

    def hook_attr(self, base, attr, n):
        if isinstance(base, Sys) and attr in ("coord_system", "_coord_system"):
            return ("coordsys", base)
        if isinstance(base, _Point) and attr in ("coordinates", "_coordinates"):
            return list(base.coords)
        if isinstance(base, _Field) and attr in ("coordinate_system", "_coordinate_system"):
            return base.system
        return NotImplemented

    def hook_method(self, base, attr, args, kwargs, n):
        if isinstance(base, tuple) and base and base[0] == "coordsys" and attr == "base_scalars" and not args:
            return scalars_of(base[1])
        if isinstance(base, _Point) and attr == "coordinate" and len(args) == 1 and isinstance(args[0], int):
            return base.coords[args[0]] if 0 <= args[0] < len(base.coords) else 0
        if isinstance(base, Sys) and attr == "transformation_to_system" and len(args) == 1 and isinstance(args[0], tuple) and args[0][0] == "kind":
            self.directions.append((base.ident, args[0][1]))
            key = (base.kind, args[0][1])
            if key not in self.tables:
                raise Raised("ValueError", getattr(n, "lineno", 0))
            sc = scalars_of(base)
            return [substitute(t, {f"q{k}": sc[k] for k in range(3)}) for t in self.tables[key]]
        if isinstance(base, _Field) and attr == "apply_to_basis" and not args:
            return base.expr
        if isinstance(base, VVal) and attr == "to_sympy_vector":
            raise _Stop(("vector", base))
        return NotImplemented

    def hook_call(self, n, env, fns):
        f = dotted(n.func) or ""
        if f == "isinstance" and len(n.args) == 2 and dotted(n.args[1]) == "Expr":
            return isinstance(self.ev(n.args[0], env, fns), (T, int))
        if f == "express" and n.args:
            raise _Stop(("expr", self.ev(n.args[0], env, fns)))
        return NotImplemented


class _KPoint:
    """a point of one of the library's point classes"""

    def __init__(self, cls: str):
        self.cls = cls


class _CallableField:
    """a field; `stored`: its point function is a stored value (an expression in the base scalars) instead of a callable"""

    def __init__(self, system: Sys, stored: bool = False):
        self.system, self.stored = system, stored


class T4Reader(PyReader):

    def __init__(self, module, where):
        super().__init__(module, where)
        self.applied = []

    def hook_attr(self, base, attr, n):
        if isinstance(base, _CallableField):
            if attr in ("_point_function", "field_function"):
                return ("stored-value", ) if base.stored else ("point-function", )
            if attr in ("_coordinate_system", "coordinate_system"):
                return base.system
        return NotImplemented

    def is_instance(self, v, names, n):
        if isinstance(v, _KPoint):
            lattice = {"Point": {"Point"}, "CartesianPoint": {"CartesianPoint", "Point"}, "SpherePoint": {"SpherePoint", "Point"}, "CylinderPoint": {"CylinderPoint", "Point"}}
            return bool(lattice[v.cls] & set(names))
        self.fail(n, "isinstance outside the modelled classes")

    def hook_call(self, n, env, fns):
        f = dotted(n.func) or ""
        name = f.split(".")[-1]
        if name == "isinstance" and len(n.args) == 2:
            v = self.ev(n.args[0], env, fns)
            spec = n.args[1]
            if isinstance(spec, ast.Name) and spec.id in env:
                sv = env[spec.id]
                names = [x[1] for x in (sv if isinstance(sv, list) else [sv]) if isinstance(x, tuple) and x and x[0] == "class"]
            else:
                names = self.class_names(spec)
            return self.is_instance(v, names, n)
        if name == "callable" and len(n.args) == 1:
            return self.ev(n.args[0], env, fns) == ("point-function", )
        if name == "type" and len(n.args) == 1:
            v = self.ev(n.args[0], env, fns)
            if isinstance(v, _KPoint):
                return ("class", v.cls)
        if name == "Vector" and n.args:
            return ("vector", self.ev(n.args[0], env, fns))
        if name == "_subs_with_point" and len(n.args) == 3:
            # the stored value with the point's coordinates inserted (decided by T5/T8): the evaluation of a field that stores a value
            vals = [self.ev(a, env, fns) for a in n.args]
            if vals[0] == ("stored-value", ) and isinstance(vals[2], _KPoint):
                self.applied.append([vals[2]])
                return ("field-value", )
            self.fail(n, "_subs_with_point arguments")
        if isinstance(n.func, ast.Attribute) and n.func.attr in ("_point_function", "field_function"):
            base = self.ev(n.func.value, env, fns)
            if isinstance(base, _CallableField):
                self.applied.append([self.ev(a, env, fns) for a in n.args])
                return ("field-value", )
        if isinstance(n.func, ast.Name) and n.func.id in env and env[n.func.id] == ("point-function", ):
            self.applied.append([self.ev(a, env, fns) for a in n.args])
            return ("field-value", )
        return NotImplemented

    def global_value(self, n):
        if isinstance(n, ast.Name) and n.id in ("CartesianPoint", "SpherePoint", "CylinderPoint", "Point") and n.id not in self.functions:
            return ("class", n.id)
        return super().global_value(n)

    def hook_attr_class(self, v, attr):
        return NotImplemented


def _t9_factories(run: Run) -> None:
    """T9: coordinates_transform / coordinates_rotate EVALUATED on a system that is a root and on one that has a parent (a rotated frame): the new SymPy system is created
    FROM the given system's own CoordSys3D (create_new / orient_new_axis on it), so it keeps that system's origin and orientation - not from its parent, not from nothing"""
    from ..pyreader import static_methods
    run.rule("T9", "coordinates_transform and coordinates_rotate derive the new system from the given system's own CoordSys3D (same origin and orientation), whatever parents it has")
    mod = run.src.need(CS)
    cls = next((c_ for c_ in mod.tree.body if isinstance(c_, ast.ClassDef) and c_.name == "CoordinateSystem"), None)
    run.require(cls is not None, "CoordinateSystem not found")

    class _Sym3D:
        def __init__(self, tag, parent=None):
            self.tag, self.parent = tag, parent

    class _CSObj:
        def __init__(self, kind, inner):
            self.kind, self.inner = kind, inner

    class R(PyReader):

        def __init__(self):
            super().__init__(mod.tree, "coordinate_systems.py", depth_limit=6)
            self.created = []

        def hook_attr(self, base, attr, n):
            if isinstance(base, _CSObj) and attr in ("coord_system", "_coord_system"):
                return base.inner
            if isinstance(base, _CSObj) and attr in ("coord_system_type", "_coord_system_type"):
                return ("kind", base.kind)
            if isinstance(base, _Sym3D) and attr in ("_parent", "parent"):
                return base.parent
            if isinstance(base, _Sym3D) and attr in ("_root", ):
                r_ = base
                while r_.parent is not None:
                    r_ = r_.parent
                return r_
            return NotImplemented

        def hook_method(self, base, attr, args, kwargs, n):
            if isinstance(base, _Sym3D) and attr in ("create_new", "orient_new_axis", "orient_new", "locate_new"):
                new_ = _Sym3D(f"{attr}({base.tag})", parent=base)
                self.created.append((attr, base, list(args), dict(kwargs), new_))
                return new_
            return NotImplemented

        def hook_call(self, n, env, fns):
            f_ = dotted(n.func) or ""
            name = f_.split(".")[-1]
            if name == "next_name" and name not in self.functions:
                return "NAME"
            if name == "CoordinateSystem" and len(n.args) >= 1:
                args = [self.ev(a, env, fns) for a in n.args]
                kw_ = {k.arg: self.ev(k.value, env, fns) for k in n.keywords if k.arg}
                kind = args[0][1] if isinstance(args[0], tuple) and args[0][:1] == ("kind", ) else None
                inner = args[1] if len(args) > 1 else kw_.get("inner")
                return _CSObj(kind, inner)
            if name == "CoordSys3D" and name not in self.functions:
                new_ = _Sym3D("CoordSys3D()", parent=None)
                self.created.append(("CoordSys3D", None, [], {}, new_))
                return new_
            return NotImplemented

    root = _Sym3D("root")
    child = _Sym3D("rotated", parent=root)
    for fname, extra, method in (("coordinates_transform", [("kind", "CYLINDRICAL")], "create_new"), ("coordinates_transform", [("kind", "SPHERICAL")], "create_new"),
                                 ("coordinates_rotate", [var("alpha"), var("axis")], None)):
        if not any(isinstance(f_, ast.FunctionDef) and f_.name == fname for f_ in mod.tree.body):
            raise AnalysisError(f"C11/T9: {fname} not found")
        for label, inner in (("a root system", root), ("a system with a parent (a rotated frame)", child)):
            run.ob("T9", f"{fname}:{label}")
            rd = R()
            rd.extern_static = static_methods(cls)
            try:
                got = rd.call(fname, [_CSObj("CARTESIAN", inner)] + list(extra))
            except Raised as r_:
                run.violate("T9", f"{CS}:{fname}:raises", mod, mod.tree, f"{fname} raises {r_.exc} for {label}")
                continue
            ok = isinstance(got, _CSObj) and isinstance(got.inner, _Sym3D) and got.inner.parent is inner and got.inner is not inner
            if ok and method == "create_new":
                made = next((c_ for c_ in rd.created if c_[4] is got.inner), None)
                # same axes: no transformation between the given system and the new one (the curvilinear scalars are expressed by the library's own tables)
                tr = made[3].get("transformation", None) if made else "?"
                ok = made is not None and made[0] == "create_new" and tr is None
            if not ok:
                how = "nothing" if not isinstance(got, _CSObj) or not isinstance(got.inner, _Sym3D) else (got.inner.parent.tag if got.inner.parent is not None else "no system at all")
                run.violate("T9", f"{CS}:{fname}:origin", mod, mod.tree,
                            f"{fname} on {label} does not derive the new system from the given system's own CoordSys3D (it is derived from {how}): the new system loses the "
                            f"orientation / origin of the frame it is a re-description of, so Cartesian -> curvilinear -> Cartesian no longer returns the original components")
                break


def _t4(run: Run) -> None:
    expected = {"CartesianPoint": "CARTESIAN", "SpherePoint": "SPHERICAL", "CylinderPoint": "CYLINDRICAL"}
    for modname, cls in (("symplyphysics.core.fields.scalar_field", "ScalarField"), ("symplyphysics.core.fields.vector_field", "VectorField")):
        m = run.src.need(modname)
        mm = _methods_module(m, cls)
        for stored in (False, True):
            what = "that stores a value" if stored else "with a callable point function"
            for pc in ("CartesianPoint", "SpherePoint", "CylinderPoint", "Point"):
                for kind in SYSTEMS:
                    run.ob("T4", f"{cls}.__call__:{pc}:{kind}:{'stored' if stored else 'callable'}")
                    R = T4Reader(mm, f"{cls}.__call__[{pc} in {kind}, {'stored value' if stored else 'callable'}]")
                    pt = _KPoint(pc)
                    try:
                        R.call("__call__", [_CallableField(Sys("F", kind), stored), pt])
                        raised = None
                    except Raised as r:
                        raised = r
                    must_refuse = pc in expected and expected[pc] != kind
                    if must_refuse and (raised is None or R.applied):
                        run.violate("T4", f"{modname}:{cls}.__call__:{pc}" + (":stored-value" if stored else ""), m, m.tree,
                                    f"{cls}.__call__ of a field {what} does not refuse a {pc} when the field's system is {kind.lower()}"
                                    + (" before evaluating the field" if R.applied else "") + f" (the point class belongs to {expected[pc].lower()} systems): "
                                    f"the point's coordinates are read as {kind.lower()} coordinates and a wrong value is answered")
                    elif not must_refuse and (raised is not None or len(R.applied) != 1 or R.applied[0] != [pt]):
                        run.violate("T4", f"{modname}:{cls}.__call__:{pc}:{kind}:applies" + (":stored-value" if stored else ""), m, m.tree,
                                    f"{cls}.__call__ of a field {what} does not evaluate the field at a {pc} in a {kind.lower()} system "
                                    f"({'raises ' + raised.exc if raised is not None else 'applications: ' + str(len(R.applied))})")


def _methods_module(mod, cls_name: str) -> ast.Module:
    cls = next((c for c in mod.tree.body if isinstance(c, ast.ClassDef) and c.name == cls_name), None)
    if cls is None:
        raise AnalysisError(f"C11: class {cls_name} not found in {mod.name}")
    return ast.Module(body=[x for x in mod.tree.body if not isinstance(x, ast.ClassDef)] + [x for x in cls.body if isinstance(x, ast.FunctionDef)], type_ignores=[])


def _generic_expr(sc: list, tag: str) -> T:
    """a*s0 + b*s1^2 + c*s2^3 + d*s0*s1*s2 : every base scalar occurs, no symmetry between them"""
    a, b, c, d = (var(f"{tag}{k}") for k in "abcd")
    return op("add", op("add", op("mul", a, sc[0]), op("mul", b, op("mul", sc[1], sc[1]))),
              op("add", op("mul", c, op("mul", sc[2], op("mul", sc[2], sc[2]))), op("mul", d, op("mul", sc[0], op("mul", sc[1], sc[2])))))


def _substitutions(run: Run, tables: dict) -> None:
    SF, VF, VM = "symplyphysics.core.fields.scalar_field", "symplyphysics.core.fields.vector_field", "symplyphysics.core.vectors.vectors"
    cs = Sys("P", "CARTESIAN")
    sc = scalars_of(cs)
    # ---- T7 / T8: a field built from an expression, evaluated at a point
    for modname, vector in ((SF, False), (VF, True)):
        m = run.src.need(modname)
        for npt in range(4):
            for selfref in (False, True) + (("additive", ) if run.tier == "thorough" else ()):
                rid = "T8" if selfref else "T7"
                # coordinates: generic values; in the self-referential variant they mention the system's own base scalars (a trajectory such as [y, x + 5])
                coords = [(op("add", var(f"g{i}"), sc[(i + 2) % 3]) if selfref == "additive" else sc[(i + 1) % 3]) if selfref else var(f"g{i}") for i in range(npt)]
                full = coords + [num(0)] * (3 - npt)
                exprs = [_generic_expr(sc, f"e{j}") for j in range(3 if vector else 1)]
                R = SubsReader(m.tree, modname.rsplit(".", 1)[1] + ".py", tables)
                run.ob(rid, f"{modname.rsplit('.', 1)[1]}:_subs_with_point[{npt} coordinates]")
                try:
                    got = R.call("_subs_with_point", [exprs if vector else exprs[0], cs, _Point(coords)])
                except Raised as r:
                    got = r
                want = [substitute(e, {sc[k].val: full[k] for k in range(3)}) for e in exprs]
                gl = got if vector else [got]
                ok = not isinstance(got, Raised) and isinstance(gl, list) and len(gl) == len(want) and all(isinstance(x, (T, int)) and same_terms(x, y) for x, y in zip(gl, want)) \
                    and not R.hazards
                if not ok:
                    if selfref:
                        why = ("the base scalars are replaced one after another, so a coordinate that mentions a base scalar of the same system (a trajectory such as [y, x + 5]) "
                               "is substituted again" + (f" ({R.hazards[0][1]})" if R.hazards else ""))
                    else:
                        why = "a base scalar is left in place or replaced by the wrong coordinate (a missing coordinate counts as 0)"
                    run.violate(rid, f"{modname}:_subs_with_point:{npt}", m, m.tree,
                                f"evaluating an expression-backed {'vector' if vector else 'scalar'} field at a point with {npt} coordinates is not the simultaneous replacement of "
                                f"all three base scalars by the point's coordinates: {why}; got {('raises ' + got.exc) if isinstance(got, Raised) else repr(gl)[:160]}")
                    break
    # ---- T10: a field built from a vector / an expression answers the same every time it is applied (the point function keeps nothing that a traversal uses up)
    run.ob("T10", "VectorField.from_vector:applied-twice")
    run.ob("T10", "ScalarField.from_expression:applied-twice")
    for modname, cname, maker, vector in ((VF, "VectorField", "from_vector", True), (SF, "ScalarField", "from_expression", False)):
        m = run.src.need(modname)
        mm = _methods_module(m, cname)

        class _MakerReader(SubsReader):

            def hook_call(self, n, env, fns):
                name = (dotted(n.func) or "").split(".")[-1]
                if name == cname and n.args and name not in self.functions:
                    return ("field", self.ev(n.args[0], env, fns))
                if name == "sympify" and n.args and name not in self.functions:
                    return self.ev(n.args[0], env, fns)
                return super().hook_call(n, env, fns)

            def apply_value(self, fval, args, n, fns, kwargs=None):
                if isinstance(fval, tuple) and len(fval) == 2 and fval[0] == "extfn" and fval[1] == "sympify":
                    return args[0]
                return super().apply_value(fval, args, n, fns, kwargs)

        exprs = [_generic_expr(sc, f"e{j}") for j in range(3 if vector else 1)]
        coords = [var(f"g{i}") for i in range(3)]
        want = [substitute(e, {sc[k].val: coords[k] for k in range(3)}) for e in exprs]
        R = _MakerReader(mm, modname.rsplit(".", 1)[1] + ".py", tables)
        try:
            fld = R.call(maker, [VVal(list(exprs), cs)] if vector else [exprs[0], cs])
            pf = fld[1] if isinstance(fld, tuple) and fld and fld[0] == "field" else None
            if pf is None:
                raise AnalysisError(f"C11/T10: {cname}.{maker} does not construct a {cname} from a point function")
            answers = [R.apply_value(pf, [_Point(list(coords))], m.tree, {}) for _ in range(2)]
        except Raised as r:
            answers = [r, r]
        for k_, got in enumerate(answers):
            gl = got if vector else [got]
            ok = not isinstance(got, Raised) and isinstance(gl, list) and len(gl) == len(want) and all(isinstance(x, (T, int)) and same_terms(x, y) for x, y in zip(gl, want))
            if not ok:
                run.violate("T10", f"{modname}:{cname}.{maker}:application-{k_ + 1}", m, m.tree,
                            f"a field built by {cname}.{maker} answers its {'first' if k_ == 0 else 'SECOND'} application with "
                            f"{('raises ' + got.exc) if isinstance(got, Raised) else repr(gl)[:120]} instead of the expression with the point's coordinates inserted"
                            + ("; the first application was right: the point function keeps an iterator (map / generator) that the first traversal used up, "
                               "so curl F read after div(curl F) has no components" if k_ == 1 else ""))
                break
    # ---- T5: Vector.rebase hands sympy a vector whose components are the transformation applied to its own components
    vm = run.src.need(VM)
    vmod = _methods_module(vm, "Vector")
    for frm, to in (("CARTESIAN", "CYLINDRICAL"), ("CARTESIAN", "SPHERICAL"), ("CYLINDRICAL", "CARTESIAN"), ("SPHERICAL", "CARTESIAN"), ("CARTESIAN", "CARTESIAN")):
        if (frm, to) not in tables:
            continue
        old, new = Sys("O", frm), Sys("N", to)
        so = scalars_of(old)
        for ncomp in range(4):
            for selfref in (False, True):
                comps = [so[(i + 1) % 3] if selfref else var(f"c{i}") for i in range(ncomp)]
                full = comps + [num(0)] * (3 - ncomp)
                R = SubsReader(vmod, "vectors.py", tables)
                run.ob("T5", f"Vector.rebase:{frm}->{to}[{ncomp}{' self-referential' if selfref else ''}]")
                try:
                    R.call("rebase", [VVal(list(comps), old), new])
                    got = None
                except _Stop as st:
                    got = st.value
                except Raised as r:
                    got = r
                if frm == to:
                    want = list(comps)
                else:
                    want = [substitute(t, {f"q{k}": full[k] for k in range(3)}) for t in tables[(frm, to)]]
                ok = isinstance(got, tuple) and got[0] == "vector" and got[1].system == old and len(got[1].components) == len(want) \
                    and all(_same_component(x, y, to, k) for k, (x, y) in enumerate(zip(got[1].components, want))) and not R.hazards \
                    and (frm == to or R.directions == [("O", to)])
                if not ok:
                    run.violate("T5", f"{VM}:Vector.rebase:{frm}->{to}:{'sequential' if selfref else 'mapping'}", vm, vm.tree,
                                f"Vector.rebase {frm.lower()} -> {to.lower()} with {ncomp} component(s): the vector handed to sympy.vector.express is not the {frm.lower()}->{to.lower()} "
                                f"transformation with every base scalar replaced (at once) by the matching component, 0 for a missing one"
                                + (" - components that mention base scalars are substituted again" if selfref else "")
                                + f"; got {('raises ' + got.exc) if isinstance(got, Raised) else (repr(got[1].components)[:160] if isinstance(got, tuple) else got)}; "
                                  f"table requested: {R.directions}")
                    break
    # ---- T5: ScalarField.rebase hands sympy the field expression with the OLD scalars expressed in the NEW ones (the reverse direction)
    fm = run.src.need(SF)
    fmod = _methods_module(fm, "ScalarField")
    for frm, to in (("CARTESIAN", "CYLINDRICAL"), ("CARTESIAN", "SPHERICAL"), ("CYLINDRICAL", "CARTESIAN"), ("SPHERICAL", "CARTESIAN"), ("CARTESIAN", "CARTESIAN")):
        if (to, frm) not in tables:
            continue
        old, new = Sys("O", frm), Sys("N", to)
        so, sn = scalars_of(old), scalars_of(new)
        E = _generic_expr(so, "f")
        R = SubsReader(fmod, "scalar_field.py", tables)
        run.ob("T5", f"ScalarField.rebase:{frm}->{to}")
        try:
            R.call("rebase", [_Field(old, E), new])
            got = None
        except _Stop as st:
            got = st.value
        except Raised as r:
            got = r
        if frm == to:
            want = E
        else:
            inv = [substitute(t, {f"q{k}": sn[k] for k in range(3)}) for t in tables[(to, frm)]]
            want = substitute(E, {so[k].val: inv[k] for k in range(3)})
        ok = isinstance(got, tuple) and got[0] == "expr" and isinstance(got[1], (T, int)) and same_terms(got[1], want) and not R.hazards and (frm == to or R.directions == [("N", frm)])
        if not ok:
            run.violate("T5", f"{SF}:ScalarField.rebase:{frm}->{to}", fm, fm.tree,
                        f"ScalarField.rebase {frm.lower()} -> {to.lower()}: the expression handed to sympy.vector.express is not the field with each old base scalar replaced by its "
                        f"expression in the new system's scalars (table requested: {R.directions}, expected [('N', '{frm}')])")


def _same_component(x, y, kind: str, k: int) -> bool:
    if not isinstance(x, (T, int)):
        return False
    if k in ANGLE_SLOTS.get(kind, ()):
        try:
            return same_terms(op("sin", x), op("sin", y)) and same_terms(op("cos", x), op("cos", y))
        except ZeroDivisionError:
            # the angle of the zero vector (atan2(0, 0), acos(0/0)): compare the arguments instead of the undefined value
            if isinstance(x, T) and isinstance(y, T) and x.op == y.op and len(x.args) == len(y.args) and x.op in ("atan2", "acos", "asin"):
                return all(_same_component(a, b, kind, -1) for a, b in zip(x.args, y.args))
            return False
    try:
        return same_terms(x, y)
    except ZeroDivisionError:
        if isinstance(x, T) and isinstance(y, T) and x.op == y.op and len(x.args) == len(y.args) and x.args:
            return all(_same_component(a, b, kind, -1) for a, b in zip(x.args, y.args))
        return repr(x) == repr(y)
