"""C11 - changing coordinate system preserves vectors and scalar fields: tables, curvilinear formulas, refusals (E4 + E3)."""
from __future__ import annotations

import ast
import itertools

from ..core import Run, AnalysisError, dotted, norm
from ..alg import T, num, var, op, normalize, substitute, same, same_terms, C, Rat
from ..reader import ExprReader, SYSTEMS
from ..pyreader import PyReader, VVal, Sys, Raised
from ..dim import World
from ..flow import Fn, node_calls, conditions_for, stmt_of, has_subscript
from .c12 import H

EXPLANATION = (
    "T1 the transformation tuples of CoordinateSystem.transformation_to_system are read into terms and equal, in exact normal "
    "form (lengths as rational functions with radicals, angles through their sine and cosine), this library's convention "
    "(cylindrical (r, theta, z); spherical (r, theta = azimuth, phi = polar)); composing Cartesian -> curvilinear -> Cartesian is "
    "the identity on x, y, z; T2 the cylindrical and spherical branches of dot_vectors and scale_vector (evaluated abstractly on "
    "generic components, lengths 0..3) equal the Cartesian dot / scaling of the transformed components; T3 direct "
    "cylindrical <-> spherical conversion has no table entry and falls through to an unconditional raise ValueError; T4 "
    "ScalarField.__call__ / VectorField.__call__ refuse each (point class, system kind) mismatch before calling the field "
    "function (complete 3-entry table, dominance); T5 Vector.rebase and ScalarField.rebase substitute all three base scalars, "
    "in opposite directions; T6 the scale factors and orientation used as reference by C12 follow from the same table "
    "(h_i^2 = sum_j (dx_j/dq_i)^2, det J = s h1 h2 h3). What sympy.vector.express does afterwards, and singular points, are not decided.")
ASSUMPTIONS = ["library convention for the angle names as documented in coordinate_systems.py", "radial coordinates non-negative",
               "sympy.vector.express is trusted"]
TRUSTED = ["python ast", "sa/alg.py normal form", "sa/pyreader.py abstract evaluator", "sympy.vector.express"]

CS = "symplyphysics.core.coordinate_systems.coordinate_systems"
AR = "symplyphysics.core.vectors.arithmetics"


def q(i: int) -> T:
    return var(f"q{i}")


def reference(frm: str, to: str) -> list:
    if frm == to:
        return [q(0), q(1), q(2)]
    if (frm, to) == ("CYLINDRICAL", "CARTESIAN"):
        return [op("mul", q(0), op("cos", q(1))), op("mul", q(0), op("sin", q(1))), q(2)]
    if (frm, to) == ("SPHERICAL", "CARTESIAN"):
        return [op("mul", op("mul", q(0), op("cos", q(1))), op("sin", q(2))), op("mul", op("mul", q(0), op("sin", q(1))), op("sin", q(2))), op("mul", q(0), op("cos", q(2)))]
    s2 = op("add", op("mul", q(0), q(0)), op("mul", q(1), q(1)))
    if (frm, to) == ("CARTESIAN", "CYLINDRICAL"):
        return [op("sqrt", s2), op("atan2", q(1), q(0)), q(2)]
    if (frm, to) == ("CARTESIAN", "SPHERICAL"):
        s3 = op("add", s2, op("mul", q(2), q(2)))
        return [op("sqrt", s3), op("atan2", q(1), q(0)), op("acos", op("div", q(2), op("sqrt", s3)))]
    raise KeyError((frm, to))


ANGLE_SLOTS = {"CARTESIAN": (), "CYLINDRICAL": (1, ), "SPHERICAL": (1, 2)}


def read_tables(run: Run):
    mod = run.src.need(CS)
    cls = next((s for s in mod.tree.body if isinstance(s, ast.ClassDef) and s.name == "CoordinateSystem"), None)
    run.require(cls is not None, "class CoordinateSystem not found")
    fn = next((s for s in cls.body if isinstance(s, ast.FunctionDef) and s.name == "transformation_to_system"), None)
    run.require(fn is not None, "transformation_to_system not found")
    tables = {}
    nodes = {}
    for s in fn.body:
        if not (isinstance(s, ast.If) and isinstance(s.test, ast.Compare) and isinstance(s.test.ops[0], ast.Eq)):
            continue
        l, r = dotted(s.test.left) or "", dotted(s.test.comparators[0]) or ""
        frm = next((x.split(".")[-1] for x in (l, r) if x.split(".")[-1] in SYSTEMS and "System" in x), None)
        if frm is None or not any(x.endswith("_coord_system_type") for x in (l, r)):
            continue
        rd = ExprReader({}, None, where=f"transformation_to_system[{frm}]")
        for st in s.body:
            if isinstance(st, ast.Assign) and isinstance(st.targets[0], ast.Tuple) and isinstance(st.value, ast.Call) and isinstance(st.value.func, ast.Attribute) \
                    and st.value.func.attr == "base_scalars" and len(st.targets[0].elts) == 3:
                for i, e in enumerate(st.targets[0].elts):
                    rd.env[e.id] = q(i)
            elif isinstance(st, ast.Assign) and isinstance(st.value, ast.Dict):
                for k, v in zip(st.value.keys, st.value.values):
                    to = (dotted(k) or "").split(".")[-1]
                    if to not in SYSTEMS:
                        raise AnalysisError(f"C11: table key `{norm(k)}` not understood")
                    val = rd.ev(v)
                    if not (isinstance(val, list) and len(val) == 3):
                        raise AnalysisError(f"C11: entry {frm}->{to} is not a triple")
                    tables[(frm, to)] = val
                    nodes[(frm, to)] = v
    return mod, fn, tables, nodes


def same_entry(a: T, b: T, angle: bool) -> bool:
    if not angle:
        return same(normalize(a), normalize(b))
    return same(normalize(op("sin", a)), normalize(op("sin", b))) and same(normalize(op("cos", a)), normalize(op("cos", b)))


def check(run: Run) -> None:
    for rid, text in [
        ("T1", "transformation tuples equal this library's convention; Cartesian -> curvilinear -> Cartesian is the identity"),
        ("T2", "curvilinear dot_vectors / scale_vector equal the Cartesian operation on the transformed components"),
        ("T3", "cylindrical <-> spherical is refused: no table entry, fall-through raises ValueError"),
        ("T4", "fields refuse each (point class, system kind) mismatch before evaluating the field function"),
        ("T5", "Vector.rebase / ScalarField.rebase substitute all three base scalars, in opposite directions"),
        ("T6", "scale factors and orientation used by C12 follow from the transformation table"),
        ("T7", "expression-backed fields substitute every base scalar by the point's coordinate accessor (missing coordinates count as zero)"),
    ]:
        run.rule(rid, text)
    mod, fn, tables, nodes = read_tables(run)
    want_pairs = [("CYLINDRICAL", "CARTESIAN"), ("SPHERICAL", "CARTESIAN"), ("CARTESIAN", "CYLINDRICAL"), ("CARTESIAN", "SPHERICAL"),
                  ("CARTESIAN", "CARTESIAN"), ("CYLINDRICAL", "CYLINDRICAL"), ("SPHERICAL", "SPHERICAL")]
    for frm, to in want_pairs:
        run.ob("T1", f"{frm}->{to}")
        if (frm, to) not in tables:
            run.violate("T1", f"{CS}:table:{frm}->{to}:missing", mod, fn, f"no transformation entry {frm.lower()} -> {to.lower()}")
            continue
        ref = reference(frm, to)
        for i in range(3):
            run.ob("T1", f"{frm}->{to}[{i}]")
            if not same_entry(tables[(frm, to)][i], ref[i], i in ANGLE_SLOTS[to]):
                run.violate("T1", f"{CS}:table:{frm}->{to}[{i}]", mod, nodes[(frm, to)],
                            f"component {i} of the {frm.lower()} -> {to.lower()} transformation is `{norm(nodes[(frm, to)].elts[i] if isinstance(nodes[(frm, to)], ast.Tuple) else nodes[(frm, to)], 60)}`, "
                            f"which differs from the convention {ref[i]!r}")
        run.sample({"transformation": f"{frm}->{to}", "entries": [repr(x) for x in tables[(frm, to)]]})
    for cur in ("CYLINDRICAL", "SPHERICAL"):
        if ("CARTESIAN", cur) in tables and (cur, "CARTESIAN") in tables:
            inner = tables[("CARTESIAN", cur)]
            comp = [substitute(t, {f"q{k}": inner[k] for k in range(3)}) for t in tables[(cur, "CARTESIAN")]]
            for i in range(3):
                run.ob("T1", f"roundtrip:CARTESIAN->{cur}->CARTESIAN[{i}]")
                if not same(normalize(comp[i]), normalize(q(i))):
                    run.violate("T1", f"{CS}:roundtrip:{cur}[{i}]", mod, fn, f"Cartesian -> {cur.lower()} -> Cartesian does not return coordinate {i}: {normalize(comp[i])!r}")
    # ---- T3
    run.ob("T3", "no-direct-table")
    for pair in (("CYLINDRICAL", "SPHERICAL"), ("SPHERICAL", "CYLINDRICAL")):
        if pair in tables:
            run.violate("T3", f"{CS}:table:{pair[0]}->{pair[1]}:present", mod, nodes[pair], f"a direct {pair[0].lower()} -> {pair[1].lower()} transformation is answered; the property requires it to be refused")
    run.ob("T3", "fall-through-raises")
    last = fn.body[-1]
    if not (isinstance(last, ast.Raise) and isinstance(last.exc, ast.Call) and dotted(last.exc.func) == "ValueError"):
        run.violate("T3", f"{CS}:transformation_to_system:fall-through", mod, fn, "unsupported transformations no longer fall through to `raise ValueError`")
    for s in fn.body:
        if isinstance(s, ast.If):
            for r in [x for x in ast.walk(s) if isinstance(x, ast.Return)]:
                conds = conditions_for(fn, r) or []
                if not any(not isinstance(t, str) and isinstance(t, ast.Compare) and isinstance(t.ops[0], ast.IsNot) and isinstance(t.comparators[0], ast.Constant) and t.comparators[0].value is None for t, p in conds):
                    run.violate("T3", f"{CS}:transformation_to_system:returns-none", mod, r, "a table miss can be returned (as None) instead of falling through to the refusal")
    # ---- T2
    amod = run.src.need(AR)
    R = PyReader(amod.tree, where="arithmetics.py")

    def call(fname, *args):
        try:
            return R.call(fname, list(args))
        except Raised as r:
            return r

    def to_cart(kind: str, comps: list) -> list:
        full = list(comps) + [num(0)] * (3 - len(comps))
        return [substitute(t, {f"q{k}": full[k] for k in range(3)}) for t in tables[(kind, "CARTESIAN")]]

    for kind in ("CYLINDRICAL", "SPHERICAL"):
        if (kind, "CARTESIAN") not in tables:
            continue
        cs = Sys("k" + kind, kind)
        for m, n in itertools.product(range(4), repeat=2):
            A = VVal([var(f"a{i}") for i in range(m)], cs)
            B = VVal([var(f"b{i}") for i in range(n)], cs)
            run.ob("T2", f"dot:{kind}[{m},{n}]")
            got = call("dot_vectors", A, B)
            ca, cb = to_cart(kind, A.components), to_cart(kind, B.components)
            want = num(0)
            for x, y in zip(ca, cb):
                want = op("add", want, op("mul", x, y))
            if isinstance(got, Raised) or not same_terms(got, want):
                run.violate("T2", f"{AR}:dot_vectors:{kind}[{m},{n}]", amod, amod.tree,
                            f"the {kind.lower()} dot product of vectors with {m} and {n} components differs from the Cartesian dot product of the re-expressed vectors: "
                            f"{'raises ' + got.exc if isinstance(got, Raised) else repr(got)[:200]} vs {normalize(want)!r}")
            if n == 0:
                # a generic scalar and concrete ones of either sign (code may special-case the sign of the factor)
                from fractions import Fraction as _F
                for s, sname in ((var("s"), "s"), (num(-2), "-2"), (num(_F(3, 2)), "3/2"), (num(_F(-5, 2)), "-5/2")):
                    run.ob("T2", f"scale:{kind}[{m}]*{sname}")
                    A2 = VVal(list(A.components), cs)
                    sc = call("scale_vector", s, A2)
                    if isinstance(sc, Raised) or not all(same_terms(x, op("mul", s, y)) for x, y in zip(to_cart(kind, sc.components), ca)):
                        run.violate("T2", f"{AR}:scale_vector:{kind}[{m}]", amod, amod.tree,
                                    f"scaling a {kind.lower()} vector with {m} components by {sname} is not the scaling of the re-expressed Cartesian vector")
                run.ob("T2", f"magnitude:{kind}[{m}]")
                mg = call("vector_magnitude", A)
                sq = num(0)
                for x in ca:
                    sq = op("add", sq, op("mul", x, x))
                if isinstance(mg, Raised) or not same_terms(op("mul", mg, mg), sq):
                    run.violate("T2", f"{AR}:vector_magnitude:{kind}[{m}]", amod, amod.tree, f"the magnitude of a {kind.lower()} vector with {m} components differs from the Cartesian magnitude")
    # ---- T6
    for kind in ("CYLINDRICAL", "SPHERICAL"):
        if (kind, "CARTESIAN") not in tables:
            continue
        names = SYSTEMS[kind]
        hs, sign = H[kind]
        ren = {names[k]: q(k) for k in range(3)}
        pos = tables[(kind, "CARTESIAN")]
        J = [[normalize(op("diff", pos[j], q(i))) for j in range(3)] for i in range(3)]
        for i in range(3):
            run.ob("T6", f"h_{i}:{kind}")
            hh = normalize(substitute(hs[i], ren))
            ssum = C(0)
            for j in range(3):
                ssum = ssum + J[i][j] * J[i][j]
            if not same(hh * hh, ssum):
                run.violate("T6", f"{CS}:scale-factor:{kind}[{i}]", mod, fn, f"the scale factor h_{i} assumed for the {kind.lower()} operators ({hh!r}) is not the length of dP/dq_{i} of the transformation table ({ssum!r} squared)")
        det = J[0][0] * (J[1][1] * J[2][2] - J[1][2] * J[2][1]) - J[0][1] * (J[1][0] * J[2][2] - J[1][2] * J[2][0]) + J[0][2] * (J[1][0] * J[2][1] - J[1][1] * J[2][0])
        prod = normalize(substitute(op("mul", op("mul", hs[0], hs[1]), hs[2]), ren)) * C(sign)
        run.ob("T6", f"orientation:{kind}")
        if not same(det, prod):
            run.violate("T6", f"{CS}:orientation:{kind}", mod, fn, f"the Jacobian determinant of the {kind.lower()} table ({det!r}) is not s*h1*h2*h3 with s = {sign}")
    # ---- T4
    w = World(run.src)
    expected = {"CartesianPoint": "CARTESIAN", "SpherePoint": "SPHERICAL", "CylinderPoint": "CYLINDRICAL"}
    for modname, path in (("symplyphysics.core.fields.scalar_field", "ScalarField.__call__"), ("symplyphysics.core.fields.vector_field", "VectorField.__call__")):
        f = Fn(w, modname, path)
        tests = {}
        for n in f.cfg.stmt_nodes():
            if n.kind == "test" and isinstance(n.ast, ast.If) and isinstance(n.ast.test, ast.BoolOp) and isinstance(n.ast.test.op, ast.And) and len(n.ast.test.values) == 2:
                a, b = n.ast.test.values
                if isinstance(a, ast.Call) and dotted(a.func) == "isinstance" and dotted(a.args[0]) == "point_" and isinstance(b, ast.Compare) and isinstance(b.ops[0], ast.NotEq) \
                        and (dotted(b.left) or "").endswith("coord_system_type") and len(n.ast.body) == 1 and isinstance(n.ast.body[0], ast.Raise):
                    tests[dotted(a.args[1])] = ((dotted(b.comparators[0]) or "").split(".")[-1], n)
        evals = [(n, c) for n in f.cfg.stmt_nodes() for c in node_calls(n) if dotted(c.func) == "self._point_function" and [dotted(a) for a in c.args] == ["point_"]]
        run.require(bool(evals), f"{path} no longer evaluates self._point_function(point_)")
        for pc, kind in expected.items():
            run.ob("T4", f"{path}:{pc}")
            if pc not in tests or tests[pc][0] != kind:
                run.violate("T4", f"{modname}:{path}:{pc}", f.mod, f.fn, f"{path} does not refuse a {pc} when the field's system is not {kind.lower()}"
                            + (f" (it tests against {tests[pc][0]})" if pc in tests else ""))
            else:
                for n, c in evals:
                    if not f.cfg.dominated_by(n, lambda y, t=tests[pc][1]: y is t):
                        run.violate("T4", f"{modname}:{path}:{pc}:bypass", f.mod, c, f"the field function can be evaluated without the {pc} / {kind.lower()} check")
    # ---- T5
    for modname, path, receiver, argument in (
            ("symplyphysics.core.vectors.vectors", "Vector.rebase", "self.coordinate_system", "coordinate_system"),
            ("symplyphysics.core.fields.scalar_field", "ScalarField.rebase", "coordinate_system", "self.coordinate_system")):
        f = Fn(w, modname, path)
        run.ob("T5", f"{path}:direction")
        tcalls = [c for n in f.cfg.stmt_nodes() for c in node_calls(n) if isinstance(c.func, ast.Attribute) and c.func.attr == "transformation_to_system"]
        if len(tcalls) != 1 or dotted(tcalls[0].func.value) != receiver or [dotted(a) for a in tcalls[0].args] != [f"{argument}.coord_system_type"]:
            run.violate("T5", f"{modname}:{path}:direction", f.mod, f.fn,
                        f"{path} must use {receiver}.transformation_to_system({argument}.coord_system_type); found {[norm(c, 70) for c in tcalls]}")
        run.ob("T5", f"{path}:all-scalars")
        ok = False
        for lp in [n for n in f.cfg.stmt_nodes() if n.kind == "for"]:
            it = lp.ast.iter
            sl = f.slice(lp, it)
            if any(c.endswith("base_scalars") for c in sl.calls) and not has_subscript([it]) and (dotted(it.args[0].func.value if isinstance(it, ast.Call) and it.args and isinstance(it.args[0], ast.Call) and isinstance(it.args[0].func, ast.Attribute) else it) or "").startswith("self."):
                subs = [c for s in lp.ast.body for c in ast.walk(s) if isinstance(c, ast.Call) and isinstance(c.func, ast.Attribute) and c.func.attr == "subs"]
                tnames = {x.id for x in ast.walk(lp.ast.target) if isinstance(x, ast.Name)}
                if subs and all(isinstance(c.args[0], ast.Name) and c.args[0].id in tnames for c in subs) and all(conditions_for(f.fn, stmt_of(f.fn, c), stop=lp.ast) in ([], [("loop", x) for x in []]) or
                                                                                                                   all(isinstance(t, str) for t, _ in (conditions_for(f.fn, stmt_of(f.fn, c), stop=lp.ast) or [])) for c in subs) \
                        and not any(isinstance(x, (ast.Break, ast.Return, ast.Continue)) for s in lp.ast.body for x in ast.walk(s)):
                    ok = True
        if not ok:
            run.violate("T5", f"{modname}:{path}:all-scalars", f.mod, f.fn, f"{path} does not substitute every base scalar of the source system (loop over all base_scalars() with an unconditional .subs)")
    # ---- T7
    sp = Fn(w, "symplyphysics.core.fields.scalar_field", "_subs_with_point")
    run.ob("T7", "_subs_with_point")
    ok = False
    for lp in [n for n in sp.cfg.stmt_nodes() if n.kind == "for"]:
        sl = sp.slice(lp, lp.ast.iter)
        if any(c.endswith("base_scalars") for c in sl.calls) and not has_subscript([lp.ast.iter]) and "zip" not in sl.calls:
            subs = [c for s_ in lp.ast.body for c in ast.walk(s_) if isinstance(c, ast.Call) and isinstance(c.func, ast.Attribute) and c.func.attr == "subs" and len(c.args) == 2]
            for c in subs:
                v = c.args[1]
                if isinstance(v, ast.Call) and isinstance(v.func, ast.Attribute) and v.func.attr == "coordinate" and dotted(v.func.value) == "point_":
                    ok = True
    if not ok:
        run.violate("T7", "symplyphysics.core.fields.scalar_field:_subs_with_point", sp.mod, sp.fn,
                    "_subs_with_point no longer replaces every base scalar by point_.coordinate(i) (the accessor that yields 0 for a missing coordinate): a field built from an "
                    "expression then keeps base scalars of missing coordinates, so the re-expressed field and the original disagree at points given with fewer coordinates")
