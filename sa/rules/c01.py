"""C01 - every published relation is dimensionally homogeneous (dimension type-check, E1)."""
from __future__ import annotations

import ast

from ..core import Run, norm, dotted
from ..dim import World, Val, describe

EXPLANATION = (
    "Static dimension type-check. Every module under laws/, definitions/, conditions/ is abstractly interpreted at module level "
    "in the domain of SI dimension vectors (symbols get the dimension they are declared with in the source, units/constants "
    "the one SymPy's unit tables give them, read from SymPy's source). For every public module-level binding the rules are: "
    "H1 the two sides of a relation have one dimension; H2 operands of +, -, Min/Max, Piecewise branches, integration limits "
    "agree; H3 exponents are dimensionless; H4 arguments of exp/trigonometric/hyperbolic functions are dimensionless. "
    "A report needs both operands resolved to concrete, different dimension vectors; anything unresolved is Unknown and only "
    "lowers the decided ratio (floor enforced). No code of the repository or of SymPy is executed.")
ASSUMPTIONS = [
    "declared dimensions in the source are what the objects carry at run time (Symbol/Function/clone_* forward their dimension argument: checked by C09)",
    "angle is dimensionless; zero, infinities, NaN and any_dimension symbols unify with everything (as the property states)",
    "log of a dimensional argument is not reported (not in the property's list)",
]
TRUSTED = ["SymPy unit/dimension definition sources (cross-validated once against the live tables, 304 names)", "python ast"]

DECIDED_FLOOR = 0.92


def _decided(v: Val) -> bool:
    res = v.extra[2]
    if res.kind in ("expr", "any"):
        return True
    if res.kind == "matrix":
        return all(x.kind in ("expr", "any") for row in res.extra for x in row)
    return False


def published_relations(env) -> list[tuple[str, Val, ast.stmt]]:
    out = []
    for name, v in env.names.items():
        if name.startswith("_"):
            continue
        sites = env.bind_sites.get(name, [])
        if not sites or not isinstance(sites[-1], (ast.Assign, ast.AnnAssign)):
            continue
        if v.kind == "eq":
            out.append((name, v, sites[-1]))
        elif v.kind == "seq":
            for i, x in enumerate(v.extra):
                if x.kind == "eq":
                    out.append((f"{name}[{i}]", x, sites[-1]))
    return out


def _h5(run: Run, w: World, mods) -> None:
    """Laws published as python functions (about 50 vector modules have no Eq at all): the bodies of the calculation functions,
    and of the law functions they call, are typed with the parameters carrying the dimensions of their guards."""
    from ..dim import Interp, guard_dimension, EXPR, UNKNOWN
    from ..dimfn import FnInterp, VEC
    from ..calc import functions
    run.rule("H5", "calculation / law function bodies are homogeneous for arguments of the guarded dimensions and yield the declared output dimension")
    nfn = ndec = 0
    for m in mods:
        env = w.env(m.name)
        for g in functions(w, m):
            if not g.fn.name.startswith("calculate") or not g.output_decos or not g.output_decos[0].args:
                continue
            it = Interp(w, env)
            od = guard_dimension(it.ev(g.output_decos[0].args[0]))
            guards = g.guards()
            args = {}
            for a in g.fn.args.posonlyargs + g.fn.args.args + g.fn.args.kwonlyargs:
                an = norm(a.annotation) if a.annotation else ""
                if a.arg not in guards:
                    args[a.arg] = UNKNOWN("unguarded parameter")
                    continue
                gd = guard_dimension(it.ev(guards[a.arg]))
                if gd is None or isinstance(gd, tuple):
                    args[a.arg] = UNKNOWN("guard not typed")
                elif gd == "any":
                    args[a.arg] = Val("any")
                elif "Sequence" in an or "list" in an.lower() or "Iterable" in an:
                    args[a.arg] = UNKNOWN("sequence parameter")
                elif "Vector" in an:
                    args[a.arg] = VEC(gd)
                else:
                    args[a.arg] = EXPR(gd)
            fi = FnInterp(w, env, g.fn, args)
            res = fi.run()
            nfn += 1
            seen = set()
            for iss in fi.env.issues:
                key = (iss.rule, iss.targets, iss.text)
                if key in seen:
                    continue
                seen.add(key)
                where = iss.targets[0] if iss.targets else g.fn.name
                run.violate("H5", f"{m.name}:{where}:{iss.text}", m, iss.node,
                            f"in `{where}` (reached from {g.fn.name} with arguments of the guarded dimensions): {iss.msg}  [{iss.text}]", **iss.facts)
            if res.kind in ("expr", "vec") and od not in (None, "any") and not isinstance(od, tuple):
                ndec += 1
                run.ob("H5", f"{m.name}:{g.fn.name}")
                if res.dim != od:
                    run.violate("H5", f"{m.name}:{g.fn.name}:output", m, g.fn,
                                f"{g.fn.name} computes a value of dimension {res.dim} from arguments of the guarded dimensions but declares an output of dimension {od}",
                                computed=str(res.dim), declared=str(od))
            else:
                run.skip("H5", f"{m.rel}:{g.fn.lineno} {g.fn.name}", res.why or res.kind)
    run.notes.update({"h5_functions": nfn, "h5_decided": ndec})
    run.floor("H5", ndec, 400, "calculation functions typed")


def _h6_declared_dimension_is_stored(run: Run, w: World) -> None:
    """the dimension engine reads `Symbol(display, dimension)`, `Function(display, arguments, dimension)`,
    `IndexedSymbol(display, index, dimension)` (positionally or as dimension=): that reading is what the constructors do"""
    from ..flow import Fn, node_calls
    SYMS = "symplyphysics.core.symbols.symbols"
    for cls, pos in (("Symbol", 1), ("Function", 2), ("IndexedSymbol", 2)):
        f = Fn(w, SYMS, f"{cls}.__init__")
        a = f.fn.args
        positional = [p.arg for p in a.posonlyargs + a.args][1:]
        names = positional + [p.arg for p in a.kwonlyargs]
        run.ob("H6", f"{cls}:signature")
        if not (len(positional) > pos and positional[pos] == "dimension" and names.count("dimension") == 1):
            run.violate("H6", f"{SYMS}:{cls}.__init__:signature", f.mod, f.fn,
                        f"{cls}(...) no longer takes its dimension as parameter `dimension` at position {pos + 1} (positional parameters: {positional}; keyword-only: "
                        f"{[p.arg for p in a.kwonlyargs]}): a dimension passed positionally and one passed as dimension= are not the same argument any more")
            continue
        stores = [(n, c) for n in f.cfg.stmt_nodes() for c in node_calls(n) if isinstance(c.func, ast.Attribute) and c.func.attr == "__init__" and len(c.args) >= 2]
        run.ob("H6", f"{cls}:stored")
        good = False
        for n, c in stores:
            darg = c.args[2] if dotted(c.func.value) == "DimensionSymbol" and len(c.args) >= 3 else c.args[1]
            sl = f.slice(n, darg)
            if sl.params == {"dimension"} and not sl.calls and not any(isinstance(x, (ast.BoolOp, ast.IfExp, ast.BinOp)) for e in sl.exprs for x in ast.walk(e)):
                good = True
        if not good:
            run.violate("H6", f"{SYMS}:{cls}.__init__:stored", f.mod, f.fn,
                        f"{cls}.__init__ does not hand its `dimension` argument unchanged to DimensionSymbol.__init__ (defaults merged with `or`, a conversion, or another "
                        f"parameter are in the way): the declared dimension of catalogue symbols is not the dimension they carry")
    base = Fn(w, SYMS, "DimensionSymbol.__init__")
    run.ob("H6", "DimensionSymbol:stores")
    st = [n for n in base.cfg.stmt_nodes() if isinstance(n.ast, ast.Assign) and dotted(n.ast.targets[0]) == "self._dimension"]
    if not (len(st) == 1 and dotted(st[0].ast.value) == "dimension"):
        run.violate("H6", f"{SYMS}:DimensionSymbol.__init__", base.mod, base.fn, "DimensionSymbol.__init__ does not store its `dimension` argument as self._dimension unchanged")
    prop = Fn(w, SYMS, "DimensionSymbol.dimension")
    run.ob("H6", "DimensionSymbol:property")
    if not all(dotted(r.ast.value) == "self._dimension" for r in prop.cfg.returns()):
        run.violate("H6", f"{SYMS}:DimensionSymbol.dimension", prop.mod, prop.fn, "DimensionSymbol.dimension does not return self._dimension")


def check(run: Run) -> None:
    run.rule("H1", "two sides of every published relation have the same dimension")
    run.rule("H2", "operands of +/-/Min/Max/Piecewise/integration limits have the same dimension")
    run.rule("H3", "exponents are dimensionless")
    run.rule("H4", "arguments of exp, trigonometric and hyperbolic functions are dimensionless")
    run.rule("H6", "the dimension written in a declaration is the dimension the object has: Symbol/Function/IndexedSymbol store the `dimension` argument "
             "(same parameter positionally and by keyword) unchanged")
    w = World(run.src)
    _h6_declared_dimension_is_stored(run, w)
    mods = run.src.catalogue()
    run.require(len(mods) >= 100, f"only {len(mods)} catalogue modules found")
    total = decided = 0
    with_rel = 0
    for m in mods:
        env = w.env(m.name)
        rels = published_relations(env)
        if rels:
            with_rel += 1
        private_seen: set = set()
        for name, v, stmt in rels:
            total += 1
            l, r, res, op = v.extra
            if _decided(v):
                decided += 1
                run.ob("H1", f"{m.name}:{name}")
                run.sample({"relation": f"{m.name}.{name}", "at": f"{m.rel}:{stmt.lineno}", "sides": f"{describe(l)} {op} {describe(r)}"})
            elif res.kind == "unknown" and "reported" in res.why:
                run.ob("H1", f"{m.name}:{name}")
            else:
                why = next((x.why for x in (l, r, res) if x.kind == "unknown"), res.kind)
                run.skip("H1", f"{m.rel}:{stmt.lineno} {name}", why)
        # a mismatch inside a PRIVATE intermediate (`_bracket = radius - _root`, `_log_argument = h + _root / r`) that a published relation is built from is reported under
        # that relation's name - whether or not the relation itself still has a decided dimension (a logarithm swallows its argument's). Issues of public statements are
        # reported below; private statements nothing published depends on are derivation scaffolding.
        private_defs: dict = {}
        for s_ in m.tree.body:
            for st_ in (s_.body if isinstance(s_, ast.With) else [s_]):
                if isinstance(st_, (ast.Assign, ast.AnnAssign)) and st_.value is not None:
                    for t_ in (st_.targets if isinstance(st_, ast.Assign) else [st_.target]):
                        if isinstance(t_, ast.Name) and t_.id.startswith("_"):
                            private_defs.setdefault(t_.id, []).append(st_)
        for name, v, stmt in rels:
            deps, todo = set(), [stmt]
            while todo:
                cur = todo.pop()
                for nn in ast.walk(cur.value if isinstance(cur, (ast.Assign, ast.AnnAssign)) and cur.value is not None else cur):
                    if isinstance(nn, ast.Name) and nn.id in private_defs and nn.id not in deps:
                        deps.add(nn.id)
                        todo.extend(private_defs[nn.id])
            for iss in env.issues:
                if iss.stmt is None or not iss.targets or not all(t.startswith("_") for t in iss.targets) or not (set(iss.targets) & deps):
                    continue
                key = (iss.rule, iss.targets[0], iss.text)
                if key in private_seen:
                    continue
                private_seen.add(key)
                run.violate(iss.rule, f"{m.name}:{name}:{iss.text}", m, iss.node,
                            f"in `{iss.targets[0]}`, which published `{name}` is built from: {iss.msg}  [{iss.text}]", **iss.facts)
        # every issue raised while evaluating a statement that binds a public name (or a bare public expression)
        seen = set()
        for iss in env.issues:
            public = [t for t in iss.targets if not t.startswith("_")]
            if iss.stmt is None or not public:
                continue
            key = (iss.rule, public[0], iss.text)
            if key in seen:
                continue
            seen.add(key)
            run.violate(iss.rule, f"{m.name}:{public[0]}:{iss.text}", m, iss.node,
                        f"in published `{public[0]}`: {iss.msg}  [{iss.text}]", **iss.facts)
        # count H2-H4 obligations: operator nodes inside public statements
        for s in m.tree.body:
            stmts = s.body if isinstance(s, ast.With) else [s]
            for st in stmts:
                if isinstance(st, (ast.Assign, ast.AnnAssign)):
                    tg = [t.id for t in (st.targets if isinstance(st, ast.Assign) else [st.target]) if isinstance(t, ast.Name)]
                    if not tg or all(t.startswith("_") for t in tg) or st.value is None:
                        continue
                    for n in ast.walk(st.value):
                        if isinstance(n, ast.BinOp) and isinstance(n.op, (ast.Add, ast.Sub)):
                            run.ob("H2", None)
                        elif isinstance(n, ast.BinOp) and isinstance(n.op, ast.Pow):
                            run.ob("H3", None)
                        elif isinstance(n, ast.Call) and isinstance(n.func, ast.Name) and n.func.id in ("exp", "sin", "cos", "tan", "cot", "sinh", "cosh", "tanh", "coth", "asin", "acos", "atan"):
                            run.ob("H4", None)
    _h5(run, w, mods)
    run.notes.update({"catalogue_modules": len(mods), "modules_with_relations": with_rel, "published_relations": total,
                      "relations_decided": decided})
    run.floor("H1", total, 300, "published relations")
    if decided < DECIDED_FLOOR * total:
        from ..core import AnalysisError
        raise AnalysisError(f"C01: only {decided}/{total} published relations decided (< {DECIDED_FLOOR:.0%}): resolver regression")
