"""C02 - calculation functions return solutions of their law: structural necessary conditions (E1 + E3)."""
from __future__ import annotations

import ast

from ..core import Run, AnalysisError, dotted, norm
from ..dim import World, Interp, guard_dimension, SAME_DIM_FUNCS, SAME_DIM_METHODS, DIMLESS_ARG_FUNCS, NUMERIC_FUNCS
from ..calc import functions
from ..flow import CFG, node_of

EXPLANATION = (
    "Structural necessary conditions of 'calculate_* returns a solution of the module's law', decided for all calculate_* "
    "functions of the catalogue on a statement CFG with reaching definitions and backward slices, plus the static dimension "
    "engine: P1 the returned value is data-dependent on a relation or law function published by the same module (or a "
    "module-level value derived from / asserted against one); P2 on the def-use path from the law-derived value to `return` no "
    "arithmetic occurs (binary operators, powers, elementary functions) - only value-preserving operations (solve, subs, doit, "
    "evalf, simplify..., Quantity, convert_to*, float/int) and the two documented post-operations abs and ceiling; P3 each "
    "substitution `S: p` of a guarded parameter p replaces a symbol S of the guard's dimension; P4 the symbol solved for has "
    "the dimension declared by validate_output; P6 (E4) where a vector law is offered solved for different unknowns the forms are "
    "mutual inverses, decided by abstract evaluation with generic vectors and exact normal form. The numerical statement itself (residual ~ 0 for all magnitudes and units) is "
    "NOT decided: it quantifies over SymPy's solve/subs/evaluation of run-time values.")
ASSUMPTIONS = [
    "sympy.solve / subs / doit / evalf / simplify and Quantity(...) preserve the value of the expression they are given",
    "two parameters of the same dimension swapped, or another root chosen, are not visible to these rules",
]
TRUSTED = ["sympy solve/subs/simplify", "python ast"]

VALUE_PRESERVING_CALLS = {
    "solve", "dsolve", "nsolve", "solveset", "Quantity", "QuantityVector", "convert_to", "convert_to_float", "convert_to_si",
    "scale_factor", "evaluate_expression", "evaluate_quantity", "float", "int", "complex", "Probability", "Fraction", "isinstance", "len", "list",
    "tuple", "abs", "Abs", "ceiling", "N", "subs_list", "Vector", "Eq", "assert_equivalent_dimension", "str", "print", "bool",
    "to_kelvin_quantity", "enumerate", "zip", "sorted", "range", "min", "max", "sympify", "S",
} | SAME_DIM_FUNCS
VALUE_PRESERVING_METHODS = {
    "subs", "doit", "evalf", "n", "replace", "removeO", "simplify", "rhs", "lhs", "from_base_vector", "to_base_vector", "apply",
    "apply_to_basis", "base_scalars", "items", "values", "keys", "get", "append", "extend", "components", "expand", "factor",
    "rebase", "xreplace", "rewrite", "together", "cancel", "trigsimp", "collect", "as_real_imag", "copy", "index", "atoms",
} | SAME_DIM_METHODS
ARITHMETIC_CALLS = (DIMLESS_ARG_FUNCS | NUMERIC_FUNCS | {"sqrt", "cbrt", "root", "Pow", "Mul", "Add", "Min", "Max", "Derivative", "diff",
                                                        "Integral", "integrate", "Sum", "Product", "re", "im", "conjugate", "Mod", "pow", "sum", "round"}) - {"abs", "ceiling", "Abs"}

# not arithmetic on the value: `<solved angle> * units.radian` tags the angle with the unit radian, whose scale factor is 1 (one place today:
# optics.refraction_angle_from_environments.calculate_refraction_angle). Recognised by the operand, not by the spelling of the statement.
UNIT_TAGS = {"units.radian", "units.rad"}


def _reaching_statements(m, fn: ast.FunctionDef) -> list:
    """the function itself plus the module-level statements that define (transitively) the module-level names it reads"""
    top = {}
    for st in m.tree.body:
        if isinstance(st, (ast.Assign, ast.AnnAssign)):
            for t in (st.targets if isinstance(st, ast.Assign) else [st.target]):
                for x in ast.walk(t):
                    if isinstance(x, ast.Name):
                        top.setdefault(x.id, []).append(st)
    out, seen, work = [fn], set(), [fn]
    while work:
        cur = work.pop()
        for x in ast.walk(cur):
            if isinstance(x, ast.Name) and isinstance(x.ctx, ast.Load) and x.id in top and x.id not in seen:
                seen.add(x.id)
                for st in top[x.id]:
                    out.append(st)
                    work.append(st)
    return out


def _p9_probability(run: Run, w) -> None:
    from ..flow import Fn, node_calls
    f = Fn(w, "symplyphysics.core.symbols.probability", "Probability.__new__")
    run.ob("P9", "Probability.__new__")
    rets = [r for r in f.cfg.returns() if r.ast.value is not None]
    ok = bool(rets)
    for r in rets:
        v = r.ast.value
        if not (isinstance(v, ast.Call) and dotted(v.func) in ("float.__new__", "super().__new__") and len(v.args) == 2):
            ok = False
            continue
        sl = f.slice(r, v.args[1])
        stores = [n for n in f.cfg.stmt_nodes() if isinstance(n.ast, (ast.Assign, ast.AugAssign)) and any(isinstance(t, ast.Name) and t.id in sl.params | {"value"}
                                                                                                             for t in (n.ast.targets if isinstance(n.ast, ast.Assign) else [n.ast.target]))]
        if sl.params != {f.params[1]} or stores or sl.calls:
            ok = False
    if not ok:
        run.violate("P9", "symplyphysics.core.symbols.probability:Probability.__new__", f.mod, f.fn,
                    "Probability(value) does not return exactly the float it was given: values are snapped/clamped, so a calculate_* function wrapping its result in Probability "
                    "returns a number that is not the law's solution")


def _law_sets(m, env) -> tuple[set, set]:
    """(strict, related): names of module-level values that are / derive from a published relation or law function;
    `related` additionally holds names that a module-level assert ties to one."""
    law = set()
    for name, v in env.names.items():
        sites = env.bind_sites.get(name, [])
        if not sites:
            continue
        s = sites[-1]
        if v.kind == "eq" or (v.kind == "seq" and any(x.kind == "eq" for x in v.extra)):
            law.add(name)
        elif v.kind == "pyfunc" and isinstance(s, ast.FunctionDef) and not name.startswith("calculate") and s in m.tree.body:
            law.add(name)
    mcfg = CFG(m.tree)
    strict = set(law)

    def hits(sl, names) -> bool:
        return bool((sl.free | sl.calls) & names) or any(a.split(".")[-1] in ("law", "definition", "condition") or a.split(".")[-1].endswith("_law")
                                                         for a in sl.attrs)

    for n in mcfg.stmt_nodes():
        if n.kind == "stmt" and isinstance(n.ast, (ast.Assign, ast.AnnAssign)) and n.ast.value is not None:
            sl = mcfg.slice(n, [n.ast.value])
            if hits(sl, law):
                for t in ast.walk(n.ast):
                    if isinstance(t, ast.Name) and isinstance(t.ctx, ast.Store):
                        strict.add(t.id)
    related = set(strict)
    for n in mcfg.stmt_nodes():
        if n.kind == "stmt" and isinstance(n.ast, ast.Assert):
            sl = mcfg.slice(n, [n.ast.test])
            names = sl.free | sl.calls | {d for dn in sl.def_nodes for d in mcfg.node_defs(dn)}
            if hits(sl, strict) or names & strict:
                related |= {x for x in names if x in env.names and env.names[x].kind in ("expr", "eq", "unknown", "seq", "matrix", "any", "solutions")}
    return strict, related


def _callee_name(c: ast.Call) -> tuple[str, bool]:
    if isinstance(c.func, ast.Attribute):
        return c.func.attr, True
    return dotted(c.func) or "", False


def check(run: Run) -> None:
    run.rule("P1", "the returned value derives from a relation / law function published by the same module")
    run.rule("P2", "no arithmetic between the law-derived value and `return` (only value-preserving operations, abs, ceiling)")
    run.rule("P3", "a guarded parameter is substituted for a symbol of the guard's dimension")
    run.rule("P4", "the symbol solved for has the dimension declared by validate_output")
    run.rule("P8", "no assumption-forcing rewrite (force=True, posify, refine) of a value that reaches a calculate_* result, inside the function or at module level")
    run.rule("P9", "the Probability wrapper returns the float it was given (or refuses): no snapping of values")
    w = World(run.src)
    _p9_probability(run, w)
    ncalc = 0
    for m in run.src.catalogue():
        env = w.env(m.name)
        fns = [g for g in functions(w, m) if g.fn.name.startswith("calculate")]
        if not fns:
            continue
        strict, related = _law_sets(m, env)
        it = Interp(w, env)
        for g in fns:
            ncalc += 1
            cfg = CFG(g.fn)
            rets = [r for r in cfg.returns() if r.ast.value is not None]
            if not rets:
                run.skip("P1", f"{m.rel}:{g.fn.lineno} {g.fn.name}", "no return with a value")
                continue

            def tainted(n, e, names=strict) -> bool:
                sl = cfg.slice(n, [e])
                return bool((sl.free | sl.calls) & names) or any(a.split(".")[-1] in ("law", "definition", "condition") or a.split(".")[-1].endswith("_law")
                                                                 for a in sl.attrs)

            # ---- P8: forced-assumption rewrites anywhere on the way to the result (module-level definitions included)
            run.ob("P8", g.qual)
            for stmt in _reaching_statements(m, g.fn):
                for x in ast.walk(stmt):
                    if isinstance(x, ast.Call):
                        cn = (dotted(x.func) or (x.func.attr if isinstance(x.func, ast.Attribute) else "")).split(".")[-1]
                        forced = any(k.arg == "force" and isinstance(k.value, ast.Constant) and k.value.value is True for k in x.keywords)
                        if forced or cn in ("posify", ) or (cn == "refine" and len(x.args) >= 2):
                            run.violate("P8", f"{g.qual}:{cn}:{norm(x, 60)}", m, x,
                                        f"`{norm(x, 70)}` rewrites a value that {g.fn.name} returns under the assumption that its symbols are positive (sqrt(x**2) -> x): for "
                                        f"arguments where that does not hold the result is not a solution of the law")
            # ---- P1
            run.ob("P1", g.qual)
            p1 = False
            for r in rets:
                sl = cfg.slice(r, [r.ast.value])
                if tainted(r, r.ast.value, related) or any(c.startswith("calculate") and c in env.names for c in sl.calls):
                    p1 = True
            if not p1:
                run.violate("P1", g.qual, m, g.fn,
                            f"{g.fn.name} returns a value that does not depend on any relation or law function published by its module "
                            f"(the formula is written out by hand instead of being derived from the law)",
                            law_names=sorted(strict)[:12])
            # ---- P2
            guards = g.guards()
            seen_ops = set()
            for r in rets:
                sl = cfg.slice(r, [r.ast.value])
                for e in sl.exprs:
                    n = node_of(cfg, e) or r
                    for x in ast.walk(e):
                        if isinstance(x, ast.BinOp):
                            if id(x) in seen_ops:
                                continue
                            seen_ops.add(id(x))
                            if tainted(n, x.left) or tainted(n, x.right):
                                run.ob("P2", None)
                                if isinstance(x.op, ast.Mult) and (dotted(x.left) in UNIT_TAGS or dotted(x.right) in UNIT_TAGS):
                                    continue
                                run.violate("P2", f"{g.qual}:{norm(x, 120)}", m, x,
                                            f"arithmetic `{norm(x, 80)}` is applied to a value derived from the law before it is returned")
                        elif isinstance(x, ast.Call):
                            if id(x) in seen_ops:
                                continue
                            seen_ops.add(id(x))
                            name, is_method = _callee_name(x)
                            args = list(x.args) + [k.value for k in x.keywords]
                            touched = any(tainted(n, a) for a in args if not isinstance(a, ast.Starred)) or \
                                (is_method and tainted(n, x.func.value))
                            if not touched:
                                continue
                            run.ob("P2", None)
                            base = name.split(".")[-1]
                            if base in ("min", "max") and not is_method and len(x.args) >= 2:
                                run.violate("P2", f"{g.qual}:{norm(x, 120)}", m, x,
                                            f"`{norm(x, 60)}` clamps a value derived from the law before it is returned: outside the clamp's range the result is no longer "
                                            f"the law's solution")
                            elif base in ARITHMETIC_CALLS and not is_method:
                                run.violate("P2", f"{g.qual}:{norm(x, 120)}", m, x,
                                            f"`{base}(...)` is applied to a value derived from the law before it is returned")
                            elif (is_method and base in VALUE_PRESERVING_METHODS) or (not is_method and base in VALUE_PRESERVING_CALLS) \
                                    or base in strict or base in env.names and env.names[base].kind in ("func", "pyfunc", "pyclass"):
                                pass
                            else:
                                run.skip("P2", f"{m.rel}:{x.lineno} {g.fn.name}", f"operation {norm(x.func, 40)} on a law-derived value not classified")
            # ---- P3
            for node in ast.walk(g.fn):
                if isinstance(node, ast.Call) and isinstance(node.func, ast.Attribute) and node.func.attr == "subs":
                    pairs = []
                    if len(node.args) == 1 and isinstance(node.args[0], ast.Dict):
                        pairs = [(k, v) for k, v in zip(node.args[0].keys, node.args[0].values) if k is not None]
                    elif len(node.args) == 2:
                        pairs = [(node.args[0], node.args[1])]
                    for k, v in pairs:
                        if not (isinstance(v, ast.Name) and v.id in guards and v.id in g.params):
                            continue
                        # the parameter must not have been re-bound before (keep it simple: single entry definition)
                        gd = guard_dimension(it.ev(guards[v.id]))
                        if any(isinstance(nn, ast.Name) and nn.id in g.params for nn in ast.walk(k)):
                            run.skip("P3", f"{m.rel}:{node.lineno} {g.fn.name}", "substitution key mentions a parameter")
                            continue
                        kd = guard_dimension(it.ev(k))
                        if gd is None or kd is None or isinstance(gd, tuple) or isinstance(kd, tuple):
                            run.skip("P3", f"{m.rel}:{node.lineno} {g.fn.name}", f"dimension of `{norm(k, 40)}` or of the guard of `{v.id}` not resolved")
                            continue
                        run.ob("P3", f"{g.qual}:{norm(k, 60)}:{v.id}")
                        if gd != "any" and kd != "any" and gd != kd:
                            run.violate("P3", f"{g.qual}:{norm(k, 60)}<-{v.id}", m, k,
                                        f"parameter `{v.id}` is checked against dimension {gd} but substituted for `{norm(k, 60)}` of dimension {kd}",
                                        guard=str(gd), symbol=str(kd))
            # ---- P4
            outs = [d.args[0] for d in g.output_decos if len(d.args) == 1]
            if outs:
                od = guard_dimension(it.ev(outs[0]))
                for r in rets:
                    sl = cfg.slice(r, [r.ast.value])
                    for c in sl.call_nodes:
                        if dotted(c.func) in ("solve", ) and len(c.args) >= 2 and not isinstance(c.args[1], (ast.Tuple, ast.List)):
                            if any(isinstance(nn, ast.Name) and nn.id in g.params for nn in ast.walk(c.args[1])):
                                continue
                            td = guard_dimension(it.ev(c.args[1]))
                            if od is None or td is None or isinstance(od, tuple) or isinstance(td, tuple):
                                run.skip("P4", f"{m.rel}:{c.lineno} {g.fn.name}", "solve target or declared output not resolved")
                                continue
                            run.ob("P4", f"{g.qual}:{norm(c.args[1], 60)}")
                            if od != "any" and td != "any" and od != td:
                                run.violate("P4", f"{g.qual}:solve:{norm(c.args[1], 60)}", m, c,
                                            f"{g.fn.name} solves the law for `{norm(c.args[1], 50)}` (dimension {td}) but declares an output of dimension {od}",
                                            solved=str(td), declared=str(od))
            if len(run.samples) < 10:
                run.sample({"function": g.qual, "returns": [norm(r.ast, 80) for r in rets], "law_names": sorted(strict)[:6]})
    p6_mutual_inverses(run, w)
    p7_exact_comparisons(run, w)
    run.notes["calculate_functions"] = ncalc
    run.floor("P1", ncalc, 400, "calculate_* functions")
    p3 = run.rules["P3"]
    if p3["obligations"] < 0.9 * (p3["obligations"] + p3["undecided"]):
        raise AnalysisError(f"C02/P3: only {p3['obligations']} of {p3['obligations'] + p3['undecided']} substitution entries typed")


# --------------------------------------------------------------------------------------------- P6: mutual inverses (E4)

AR_MOD = "symplyphysics.core.vectors.arithmetics"


def _target(fn_name: str):
    for suf in ("_law", "_definition"):
        if fn_name.endswith(suf):
            return fn_name[:-len(suf)]
    return None


def p6_mutual_inverses(run: Run, w: World) -> None:
    """Where a vector law is offered solved for different unknowns, the forms are mutual inverses: F(g := G(f, rest), rest) = f,
    decided with generic 3-vectors / scalars by abstract evaluation of the law functions (and of core/vectors/arithmetics.py,
    which they call) and exact normal form."""
    from ..alg import T, var, num, op, normalize, same
    from ..pyreader import PyReader, VVal, Sys, Raised
    run.rule("P6", "vector laws offered for different unknowns are mutual inverses: F(g := G(f, rest), rest) = f for generic vectors and scalars")
    ar = run.src.need(AR_MOD)
    cart = Sys("cs0", "CARTESIAN")
    npairs = 0
    for m in run.src.catalogue():
        fns = [s for s in m.tree.body if isinstance(s, ast.FunctionDef) and _target(s.name) and not s.name.startswith("_")]
        if len(fns) < 2:
            continue
        env_mod = w.env(m.name)

        class LawReader(PyReader):
            def global_value(self, n, env_mod=env_mod):
                d = dotted(n)
                if d is None:
                    return None
                if isinstance(n, ast.Name):
                    v = env_mod.names.get(n.id)
                    if v is not None and v.kind in ("expr", "any") and v.extra != "unit":
                        return var(n.id)
                    return None
                v = Interp(w, env_mod).ev(n)
                if v.kind == "expr" and v.extra == "quantity":
                    return var(d.replace(".", "_"))
                return None

        merged = ast.Module(body=[s for s in ar.tree.body] + [s for s in m.tree.body if isinstance(s, (ast.FunctionDef, ast.ImportFrom))], type_ignores=[])
        R = LawReader(merged, where=m.name)

        def generic(pname: str, annot):
            base = pname.rstrip("_")
            is_vec = annot is not None and "Vector" in norm(annot)
            return VVal([var(f"{base}{i}") for i in range(3)], cart) if is_vec else var(base)

        for F in fns:
            for G in fns:
                if F is G:
                    continue
                f, g = _target(F.name), _target(G.name)
                fparams = {a.arg: a.annotation for a in F.args.args}
                gparams = {a.arg: a.annotation for a in G.args.args}
                if f"{g}_" not in fparams:
                    continue
                # value of quantity f as G sees it
                if f"{f}_" in gparams:
                    fval = generic(f"{f}_", gparams[f"{f}_"])
                elif f in env_mod.names and env_mod.names[f].kind in ("expr", "any"):
                    fval = var(f)
                else:
                    continue
                where = f"{m.rel}:{F.lineno} {F.name}({g}_ := {G.name}(...))"
                values = {}
                for p, a in list(gparams.items()) + list(fparams.items()):
                    values.setdefault(p, generic(p, a))
                if f"{f}_" in gparams:
                    values[f"{f}_"] = fval
                npairs += 1
                try:
                    gres = R.call(G.name, [values[p] for p in gparams])
                    fargs = [gres if p == f"{g}_" else values[p] for p in fparams]
                    res = R.call(F.name, fargs)
                    if isinstance(fval, VVal):
                        if not isinstance(res, VVal):
                            run.skip("P6", where, "result kind differs")
                            continue
                        a_, b_ = list(res.components) + [num(0)] * (3 - len(res.components)), fval.components
                        equal = all(same(normalize(x), normalize(y)) for x, y in zip(a_, b_))
                    else:
                        if isinstance(res, VVal):
                            run.skip("P6", where, "result kind differs")
                            continue
                        equal = same(normalize(res), normalize(fval))
                except Raised as r:
                    run.skip("P6", where, f"abstract evaluation ends in raise {r.exc}")
                    continue
                except (AnalysisError, ZeroDivisionError) as e:
                    run.skip("P6", where, f"outside the decidable class: {str(e)[:90]}")
                    continue
                run.ob("P6", f"{m.name}:{F.name}<-{G.name}")
                if not equal:
                    run.violate("P6", f"{m.name}:{F.name}<-{G.name}", m, F,
                                f"{F.name} and {G.name} are offered as forms of one law solved for `{f}` and `{g}`, but {F.name}({g}_ := {G.name}(...)) does not give back `{f}`")
                elif len([s for s in run.samples if isinstance(s, dict) and s.get("rule") == "P6"]) < 3:
                    run.sample({"rule": "P6", "module": m.name, "composition": f"{F.name}({g}_ := {G.name}(...)) = {f}"})
    run.notes["p6_pairs_examined"] = npairs


# --------------------------------------------------------------------------------------------- P7: exact quantity comparisons

QMOD = "symplyphysics.core.symbols.quantities"


def p7_exact_comparisons(run: Run, w: World) -> None:
    """Piecewise laws compare quantities through `_eval_is_ge` / `_eval_is_positive`: the verdict must be the exact comparison of
    the SI scale factors (no tolerance, no rounding), otherwise the branch a calculation takes depends on the unit prefix."""
    from ..flow import Fn, numeric_consts
    run.rule("P7", "quantity comparisons used by piecewise laws are exact comparisons of SI scale factors (no tolerance)")
    mod = run.src.need(QMOD)
    fns = [s for s in mod.tree.body if isinstance(s, ast.FunctionDef) and s.name == "_eval_is_ge"]
    if not fns:
        raise AnalysisError("C02/P7: quantities._eval_is_ge not found")
    # every dispatch overload of _eval_is_ge is EVALUATED (sa/gate.py) on quantities of equal / different dimension and zero / infinite value: the guard may be
    # written inline, through a helper, as guard clauses - what counts is which inputs end in a raise and what is compared otherwise
    from ..gate import GateReader, Dim, Fac, Obj, MagnitudeUse, quantity as _quantity
    from ..pyreader import Raised
    from ..alg import T as _T, num as _num
    L_, T_ = Dim.of(length=1), Dim.of(time=1)

    class _GeReader(GateReader):

        def hook_call(self, n, env, fns_):
            f_ = dotted(n.func) or ""
            name = f_.split(".")[-1]
            if name == "float" and len(n.args) == 1:
                v = self.ev(n.args[0], env, fns_)
                if isinstance(v, (Fac, _T, int)) and not isinstance(v, bool):
                    return ("value", v)  # the number itself: float() of an exact value changes nothing the comparison could see
            if f_ in ("SI.get_dimension_system", "dimsys_SI"):
                return ("dimsys", )
            return super().hook_call(n, env, fns_)

        def hook_compare(self, o, l, r, n):
            def tok(x):
                return isinstance(x, tuple) and len(x) == 2 and x[0] in ("value", "arithmetic-on-the-value")
            if all(isinstance(x, tuple) and len(x) == 2 and x[0] == "value" for x in (l, r)):
                return (type(o).__name__, l[1], r[1])
            if tok(l) or tok(r):
                return (type(o).__name__, l, r)  # a comparison of something computed from the values: not the exact comparison
            return super().hook_compare(o, l, r, n)

        def hook_binop(self, o, l, r, n):
            if any(isinstance(x, tuple) and len(x) == 2 and x[0] == "value" for x in (l, r)):
                return ("arithmetic-on-the-value", norm(n, 60))
            return super().hook_binop(o, l, r, n)

    for fdef in fns:
        sig = next(([dotted(a_) or "" for a_ in d.args] for d in fdef.decorator_list if isinstance(d, ast.Call) and (dotted(d.func) or "").split(".")[-1] == "dispatch"), None)
        pnames = [p_.arg for p_ in fdef.args.posonlyargs + fdef.args.args]
        if len(pnames) != 2:
            raise AnalysisError("C02/P7: _eval_is_ge with other than two parameters")
        is_q = [(t_.split(".")[-1] in ("Quantity", "SymQuantity")) for t_ in sig] if sig else [True, True]
        if not any(is_q):
            continue
        tag = "" if all(is_q) else ":" + ",".join(t_.split(".")[-1] for t_ in sig)

        def operand(i, dim, kind):
            return _quantity(f"{'lhs' if i == 0 else 'rhs'}", dim, kind) if is_q[i] else _num(5)

        # (dimension of lhs, dimension of rhs, value kinds, must refuse?)  None = either is fine (a zero / infinite value matches any dimension)
        table = [(L_, L_, "finite", "finite", False), (Dim(), Dim(), "finite", "finite", False)]
        if all(is_q):
            # one dimension written in two ways (joule vs newton*meter): equivalent, so comparable - a structural `==` on the dimensions would refuse them
            E1 = Dim(Dim.of(mass=1, length=2, time=-2).exps, False, "energy")
            E2 = Dim(Dim.of(mass=1, length=2, time=-2).exps, False, "force*length")
            table.append((E1, E2, "finite", "finite", False))
            table += [(L_, T_, "finite", "finite", True), (L_, Dim(), "finite", "finite", True), (L_, T_, "zero", "finite", None), (L_, T_, "finite", "inf", None)]
        else:
            qi = is_q.index(True)
            table = [(Dim(), Dim(), "finite", "finite", False), (L_, L_, "finite", "finite", True), (L_, L_, "zero", "zero", None)]
        for dl, dr, kl, kr, refuse in table:
            lhs_, rhs_ = operand(0, dl, kl), operand(1, dr, kr)
            label = f"{dl!r}[{kl}] >= {dr!r}[{kr}]" if all(is_q) else f"{'quantity' if is_q[0] else 'number'} >= {'quantity' if is_q[1] else 'number'}, quantity of dimension {dl!r}[{kl}]"
            run.ob("P7", f"_eval_is_ge{tag}:{label}")
            rd = _GeReader(mod.tree, "quantities.py", depth_limit=8)
            try:
                got = rd.call_def(fdef, [lhs_, rhs_], {}, {})
                raised = None
            except Raised as r_:
                got, raised = None, r_
            except MagnitudeUse as mu:
                run.violate("P7", f"{QMOD}:_eval_is_ge", mod, mu.node, f"`lhs >= rhs` on quantities: {mu.what} in `{norm(mu.node, 60)}`; anything but the exact comparison "
                            f"scale_factor(lhs) >= scale_factor(rhs) makes the branch of a piecewise law depend on the magnitude / unit prefix of the arguments")
                break
            if refuse is True and raised is None:
                if got is None:
                    run.violate("P7", f"{QMOD}:_eval_is_ge:guard-returns-none", mod, fdef,
                                "for quantities of inequivalent dimensions _eval_is_ge returns None: to SymPy that only means 'no opinion', it then decides the relation from the "
                                "signs of the operands - Max(1 m, -3 s) evaluates to 1 m before the constructor can see the mismatch. The guard has to raise")
                else:
                    run.violate("P7", f"{QMOD}:_eval_is_ge:dimension-guard{tag}", mod, fdef,
                                ("quantities are ordered without a dimension-equivalence guard: Max/Min/Piecewise over quantities of different dimensions are silently decided by "
                                 "their scale factors (Quantity(Max(3 m, 2 s)) is accepted)") if all(is_q) else
                                (f"the overload {tag[1:]} orders a quantity against a bare number by its scale factor without refusing a dimensional quantity: SymPy folds "
                                 f"Max(3 m, 5) to a dimensionless 5 before the collector can see the mismatch, and Max(3 m, 2.5, 1 s) is bridged by the number"))
                break
            if raised is not None:
                if refuse is False:
                    run.violate("P7", f"{QMOD}:_eval_is_ge:refuses-comparable{tag}", mod, fdef, f"_eval_is_ge raises {raised.exc} for operands of one dimension ({label})")
                    break
                continue
            lv = lhs_.attrs["scale_factor"] if isinstance(lhs_, Obj) else lhs_
            rv = rhs_.attrs["scale_factor"] if isinstance(rhs_, Obj) else rhs_
            exact = isinstance(got, tuple) and len(got) == 3 and got[0] == "GtE" and got[1] is lv and got[2] is rv
            if not exact:
                run.violate("P7", f"{QMOD}:_eval_is_ge", mod, fdef,
                            f"`lhs >= rhs` on quantities ({label}) is decided by {got!r}; anything but the exact comparison scale_factor(lhs) >= scale_factor(rhs) makes the "
                            f"branch of a piecewise law depend on the magnitude / unit prefix of the arguments")
                break
    g = Fn(w, QMOD, "Quantity._eval_is_positive")
    for r in g.cfg.returns():
        conds_try = [x for x in ast.walk(g.fn) if isinstance(x, ast.Try)]
        v = r.ast.value
        if isinstance(v, ast.Constant):
            continue
        run.ob("P7", "_eval_is_positive")
        ok = isinstance(v, ast.Compare) and len(v.ops) == 1 and isinstance(v.ops[0], (ast.GtE, ast.Gt)) and isinstance(v.comparators[0], ast.Constant) and v.comparators[0].value == 0
        if ok:
            sl = g.slice(r, v.left)
            ok = sl.params == {"self"} and not numeric_consts(sl) and all(c.split(".")[-1] in ("scale_factor", "float") for c in sl.calls)
        if not ok:
            run.violate("P7", f"{QMOD}:Quantity._eval_is_positive", g.mod, r.ast, f"positivity of a quantity is decided by `{norm(v, 80)}`, not by the sign of its SI scale factor")
