"""C06 - symbolic dimension inference agrees with evaluation on quantities: the expression collector and Symbolic.__init__ evaluated
abstractly on expression trees (E3 by evaluation)."""
from __future__ import annotations

import ast
import itertools
from fractions import Fraction

from ..core import Run, AnalysisError, dotted, norm
from ..dim import World
from ..alg import T, num, var, op, app
from ..pyreader import Raised
from ..gate import GateReader, Dim, Obj
from ..exprtree import Node, Leaves, spec_expression, tree_term, Refused, same_value, is_zero_term, normalize_safe
from .c05 import QReader, strip_float, float_num

EXPLANATION = (
    "collect_expression.py is EVALUATED (sa/pyreader.py + sa/exprtree.py) on a family of several hundred expression trees over dimensioned "
    "symbols, applied functions, elements of indexed symbols, quantities (one of them zero-valued), numbers (exact and floating point), with "
    "every node kind the property names (products, powers, sums, min/max, absolute value, derivatives, elementary functions) at depth one "
    "and two. For each tree the answer - (expression, dimension) or an error - is compared with the property: S1 the dimension is the "
    "combination of the declared dimensions of the leaves (products multiply, powers scale by the exact value of the exponent, sums, "
    "min/max and absolute value keep the common dimension, a derivative divides by the dimensions of its variables) and the returned "
    "expression is value-equal to the input (quantities read as their SI values); S3 an error is reported exactly when a sum or min/max "
    "combines inequivalent dimensions (zero-valued terms excepted) or an exponent is dimensional. The shape of the code is free. S5 "
    "Symbolic.__init__ stores the inferred dimension of its argument. K5 (shared) decides the any-dimension predicate. NOT decided: the "
    "last clause of the property as a run-time statement (replacing symbols by quantities and constructing the quantity) - it follows from "
    "S1 here and S1 of C05 for the tree family, not for all SymPy expression kinds.")
ASSUMPTIONS = ["SymPy's Mul/Add/Pow/Derivative args and the dimension system behave as documented", "SymPy evaluates arithmetic on numeric scale factors correctly"]
TRUSTED = ["sympy expression tree API", "python ast", "sa/pyreader.py abstract evaluator", "sa/alg.py normal form"]

CE = "symplyphysics.core.dimensions.collect_expression"
SYM = "symplyphysics.core.operations.symbolic"


def tree_family(lv: Leaves, deep: bool = False) -> list:
    L, Tm, M = Dim.of(length=1), Dim.of(time=1), Dim.of(mass=1)
    a, b, c = lv.symbol("a", L), lv.symbol("b", L), lv.symbol("c", Tm)
    q, r, z = lv.quantity("q", L), lv.quantity("r", Tm), lv.quantity("z", Tm, zero=True)
    t = lv.symbol("t", Tm)
    f = lv.applied("f(t)", M, [t])
    w = lv.symbolic("w", L)
    ang = lv.symbol("phi", Dim.of(angle=1))  # an angle-typed symbol: angle is a dimension of its own for sums (only the gate erases it)
    pbase = lv.symbol("p", M)
    lv.info["p"]["kind"] = "indexedbase"
    p1 = ("indexed-element", pbase, 1)
    half = num(Fraction(1, 2))
    ratio = Node("Mul", [a, Node("Pow", [b, -1])])
    out = []

    def add(label, tree):
        out.append((label, tree))

    leaves = [("a", a), ("b", b), ("c", c), ("q", q), ("r", r), ("z", z), ("f(t)", f), ("p[1]", p1), ("2", 2), ("0", 0), ("a/b", ratio), ("w", w)]
    for nm, tr in leaves:
        add(nm, tr)
    for (n1, t1), (n2, t2) in itertools.product(leaves, repeat=2):
        for cls in ("Mul", "Add", "Min", "Max"):
            add(f"{cls}({n1}, {n2})", Node(cls, [t1, t2]))
    triples = [(0, 3, 8), (3, 0, 1), (5, 0, 1), (0, 5, 2), (3, 4, 0), (8, 3, 0), (9, 5, 0), (0, 1, 3), (6, 7, 8), (7, 6, 5), (3, 3, 0), (8, 8, 10), (0, 10, 3)]
    for i, j, k in triples:
        for cls in ("Mul", "Add", "Min", "Max"):
            add(f"{cls}({leaves[i][0]}, {leaves[j][0]}, {leaves[k][0]})", Node(cls, [leaves[i][1], leaves[j][1], leaves[k][1]]))
    exps = [("2", 2), ("-1", -1), ("1/2", half), ("2.0", float_num(2)), ("0.1", float_num(Fraction(1, 10))), ("1.6667", float_num(Fraction(16667, 10000))),
            ("c", c), ("r", r), ("z", z), ("a/b", ratio), ("0", 0)]
    for (nb, tb), (ne, te) in itertools.product([("a", a), ("q", q), ("2", 2), ("z", z), ("a*c", Node("Mul", [a, c])), ("a/b", ratio), ("f(t)", f), ("p[1]", p1)], exps):
        add(f"Pow({nb}, {ne})", Node("Pow", [tb, te]))
    for nm, tr in leaves + [("a+b", Node("Add", [a, b])), ("a+c", Node("Add", [a, c]))]:
        add(f"Abs({nm})", Node("Abs", [tr]))
        add(f"sin({nm})", Node("Function", [tr], name="sin"))
    for nm, tr in (("2", 2), ("a/b", ratio), ("a", a)):
        for cls in ("Add", "Max", "Min"):
            add(f"{cls}(phi, {nm})", Node(cls, [ang, tr]))
    add("Add(Mul(phi, a), b)", Node("Add", [Node("Mul", [ang, a]), b]))
    add("Add(phi, phi)", Node("Add", [ang, ang]))
    add("Derivative(f(t), t)", Node("Derivative", [f, [t, 1]]))
    add("Derivative(f(t), (t, 2))", Node("Derivative", [f, [t, 2]]))
    add("Derivative(f(t), t, a)", Node("Derivative", [f, [t, 1], [a, 1]]))
    add("Derivative(f(t), (t, c))", Node("Derivative", [f, [t, c]]))  # a derivative of symbolic order: no sum, no exponent - nothing to refuse
    # the variable of differentiation need not be a plain symbol (Lagrangian forms dL/dx(t), dL/d(dx/dt)): its dimension is inferred like any other operand's
    g = lv.applied("g(t)", L, [t])
    dg = Node("Derivative", [g, [t, 1]])
    add("Derivative(f(t), g(t))", Node("Derivative", [f, [g, 1]]))
    add("Derivative(f(t), (g(t), 2), t)", Node("Derivative", [f, [g, 2], [t, 1]]))
    add("Derivative(f(t), Derivative(g(t), t))", Node("Derivative", [f, [dg, 1]]))
    add("Derivative(a*f(t), t)", Node("Derivative", [Node("Mul", [a, f]), [t, 1]]))
    add("a*Derivative(f(t), t)", Node("Mul", [a, Node("Derivative", [f, [t, 1]])]))
    add("f(t) + Derivative(f(t), t)", Node("Add", [f, Node("Derivative", [f, [t, 1]])]))
    add("f(t) + c*Derivative(f(t), t)", Node("Add", [f, Node("Mul", [c, Node("Derivative", [f, [t, 1]])])]))
    compound = [("a*b", Node("Mul", [a, b])), ("a+q", Node("Add", [a, q])), ("a/b", ratio), ("z*a", Node("Mul", [z, a])), ("Abs(c)", Node("Abs", [c])), ("Min(a, q)", Node("Min", [a, q])),
                ("a**2", Node("Pow", [a, 2])), ("a+c", Node("Add", [a, c])), ("sqrt(a*b)", Node("Pow", [Node("Mul", [a, b]), half])), ("(a*b)**1.0", Node("Pow", [Node("Mul", [a, b]), float_num(1)])),
                ("2*q", Node("Mul", [2, q])), ("q*r", Node("Mul", [q, r])), ("q+q", Node("Add", [q, q]))]
    partners = [("a", a), ("c", c), ("2", 2), ("z", z), ("q", q), ("a*b", Node("Mul", [a, b]))]
    for (n1, t1), (n2, t2) in itertools.product(compound, partners):
        for cls in ("Mul", "Add", "Max"):
            add(f"{cls}({n1}, {n2})", Node(cls, [t1, t2]))
            add(f"{cls}({n2}, {n1})", Node(cls, [t2, t1]))
    for n1, t1 in compound:
        add(f"Pow({n1}, 2)", Node("Pow", [t1, 2]))
        add(f"Pow(f(t), {n1})", Node("Pow", [f, t1]))
        add(f"Abs({n1})", Node("Abs", [t1]))
        add(f"exp({n1})", Node("Function", [t1], name="exp"))
    if deep:
        # thorough: compound x compound at depth three, every sum-like and product node kind
        for (n1, t1), (n2, t2) in itertools.product(compound, repeat=2):
            for cls in ("Mul", "Add", "Min", "Max"):
                add(f"{cls}({n1}, {n2})", Node(cls, [t1, t2]))
            add(f"Pow({n1}, {n2})", Node("Pow", [t1, t2]))
        for n1, t1 in compound:
            add(f"Derivative(f(t)*({n1}), t)", Node("Derivative", [Node("Mul", [f, t1]), [t, 1]]))
            add(f"Derivative(f(t), t) + {n1}", Node("Add", [Node("Derivative", [f, [t, 1]]), t1]))
    return out


class EReader(QReader):

    def any_dimension_value(self, v, n) -> bool:
        # the symbolic collector asks the predicate about EXPRESSIONS: a quantity object is not recognised as zero by SymPy, whatever its scale factor;
        # only numbers and scale factors are
        if isinstance(v, T):
            from ..exprtree import is_zero_term as _z
            return _z(v)
        return super().any_dimension_value(v, n)

    def hook_attr(self, base, attr, n):
        if isinstance(base, tuple) and base and base[0] == "indexed-element" and attr == "base":
            return base[1]
        return super().hook_attr(base, attr, n)

    def scalar(self, v, n):
        if isinstance(v, tuple) and v and v[0] == "indexed-element":
            return app("Indexed", v[1], num(v[2]))
        return super().scalar(v, n)

    def hook_call(self, n, env, fns):
        name = (dotted(n.func) or "").split(".")[-1]
        if name in ("hasattr", "getattr") and len(n.args) >= 2:
            v = self.ev(n.args[0], env, fns)
            if isinstance(v, tuple) and v and v[0] == "indexed-element":
                if name == "hasattr":
                    return False
                if len(n.args) == 3:
                    return self.ev(n.args[2], env, fns)
                raise Raised("AttributeError", getattr(n, "lineno", 0))
            if isinstance(v, (int, Node)) and not isinstance(v, bool):
                if name == "hasattr":
                    return False
                if len(n.args) == 3:
                    return self.ev(n.args[2], env, fns)
                raise Raised("AttributeError", getattr(n, "lineno", 0))
        return super().hook_call(n, env, fns)


def _collector(run: Run) -> None:
    m = run.src.need(CE)
    lv = Leaves()
    misc = run.src.need("symplyphysics.core.dimensions.miscellaneous")
    # helpers of the sibling module the collectors import (followed into their source); the predicates K5 decides keep their hooks
    misc_functions = {f_.name: f_ for f_ in misc.tree.body if isinstance(f_, ast.FunctionDef) and f_.name not in ("is_any_dimension", "is_number")}
    fam = tree_family(lv, run.tier == "thorough")
    run.require(len(fam) >= 600, "tree family shrank")
    reported = set()
    for label, tree in fam:
        try:
            want = spec_expression(tree, lv)
        except Refused as e:
            want = e
        except AnalysisError:
            continue
        R = EReader(m.tree, "collect_expression.py", lv)
        R.extern_functions = misc_functions
        try:
            got = R.call("collect_expression_and_dimension", [tree])
        except Raised as r:
            got = r
        rid = "S3" if isinstance(want, Refused) or isinstance(got, Raised) else "S1"
        run.ob(rid, label)
        problem = None
        if isinstance(want, Refused):
            if not isinstance(got, Raised):
                problem = f"is accepted (answer {got!r}) although {want}: the property demands an error"
        elif isinstance(got, Raised):
            problem = f"is refused ({got.exc}) although every sum-like node has terms of one dimension (zero-valued terms aside) and every exponent is dimensionless"
        else:
            if not (isinstance(got, list) and len(got) == 2):
                problem = f"answers {got!r}, not an (expression, dimension) pair"
            else:
                ge, gd = got
                wv = lv.value(tree_term(tree, lv))
                if isinstance(ge, Node):
                    ge = tree_term(ge, lv)
                if isinstance(ge, tuple) and ge and ge[0] == "indexed-element":
                    ge = tree_term(ge, lv)
                if not (isinstance(ge, (T, int)) and same_value(strip_float(lv.value(ge) if isinstance(ge, T) else ge), strip_float(wv))):
                    problem = f"returns the expression {ge!r}, which is not value-equal to the input ({wv!r} on the SI values of the quantities)"
                elif want is not None and not (isinstance(want, tuple) and want[0] in ("opaque-dim", )) \
                        and not (gd == want or (isinstance(gd, Dim) and isinstance(want, Dim) and gd.exps == want.exps)):
                    problem = f"is inferred to have dimension {gd!r}; combining the declared dimensions of its leaves gives {want!r}" + \
                        (" (a float exponent as written gives a dimension SymPy does not consider equivalent to the exact one)" if isinstance(gd, tuple) and gd[0] == "dim-float-power" else "")
        if problem:
            kind = (rid, problem.split(";")[0][:50], getattr(tree, "cls", "leaf"))
            if kind in reported:
                continue
            reported.add(kind)
            run.violate(rid, f"{CE}:collect_expression_and_dimension:{label}", m, m.tree, f"Symbolic collector: `{label}` {problem}")
    run.sample({"collector": CE, "trees": len(fam)})


class SymbolicInit(GateReader):

    def __init__(self, module, where, answer):
        super().__init__(module, where)
        self.answer = answer
        self.asked = []

    def hook_call(self, n, env, fns):
        name = (dotted(n.func) or "").split(".")[-1]
        if name == "collect_expression_and_dimension" and len(n.args) == 1 and name not in self.functions:
            self.asked.append(self.ev(n.args[0], env, fns))
            return list(self.answer)
        if isinstance(n.func, ast.Attribute) and n.func.attr == "__init__" and isinstance(n.func.value, ast.Call) and dotted(n.func.value.func) == "super":
            return None
        return super().hook_call(n, env, fns)


def _symbolic_init(run: Run) -> None:
    from .c11 import _methods_module
    sm = run.src.need(SYM)
    mm = _methods_module(sm, "Symbolic")
    run.ob("S5", "Symbolic.__init__")
    D = Dim.of(mass=1, length=-1, time=-2)
    R = SymbolicInit(mm, "symbolic.py", ("EXPR-OUT", D))
    me = Obj("Symbolic", {}, "self")
    problem = None
    try:
        R.call("__init__", [me, "EXPR"], {})
    except Raised as r:
        problem = f"raises {r.exc}"
    if not problem:
        if R.asked != ["EXPR"]:
            problem = f"asks the symbolic collector about {R.asked!r}, not about its argument"
        elif me.attrs.get("dimension") != D or not isinstance(me.attrs.get("dimension"), Dim):
            problem = f"stores dimension {me.attrs.get('dimension')!r}, not the dimension the collector inferred for its argument"
    if problem:
        run.violate("S5", f"{SYM}:Symbolic.__init__:dimension", sm, sm.tree, f"Symbolic.__init__ {problem}")


def check(run: Run) -> None:
    run.rule("S1", "the symbolic collector's answer for a tree is (an expression value-equal to the input, the combination of the declared dimensions of its leaves), exponents taken exactly")
    run.rule("S3", "an error is reported exactly when a sum/min/max combines inequivalent dimensions (zero-valued terms excepted) or an exponent is dimensional")
    run.rule("S5", "Symbolic.__init__ stores the dimension the collector infers for its argument")
    w = World(run.src)
    from .c04 import _k5
    _k5(run, w)
    _collector(run)
    _symbolic_init(run)
