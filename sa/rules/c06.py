"""C06 - symbolic dimension inference: structure of the expression collector (E3)."""
from __future__ import annotations

import ast

from ..core import Run, AnalysisError, dotted, norm
from ..dim import World
from ..flow import CFG, Fn, node_calls, conditions_for, stmt_of
from .collectors import CE, run_collector_rules, homomorphism, returned_pairs, _fn, ops_in_slice, sum_like_discipline, same_exponent

EXPLANATION = (
    "Structural necessary conditions of the symbolic collector (collect_expression.py) and of the wrappers that use it: "
    "S1 children coverage (every child of a Mul/Pow/Add/Abs/Min/Max/Derivative/Function node is passed, itself, to the recursive "
    "collector; the numeric/quantity/symbolic split visits all args and all three parts reach the result); S2 dispatch table "
    "complete and ordered; S3 the common-dimension helper compares with equivalent_dims, honours the any-dimension escape for "
    "numbers, quantities and symbolic terms, and raises; Pow refuses a dimensional exponent; S5 Symbolic.__init__ takes its "
    "dimension from collect_expression_and_dimension(expr)[1]; S6 homomorphism shape (Mul: *, Add: +, Pow: **, Derivative: "
    "division by variable dimension ** order). The commuting diagram with evaluation on quantities is not decided.")
ASSUMPTIONS = ["SymPy's expression tree API; equivalent_dims / is_dimensionless", "value-level arithmetic beyond operator kind is not examined"]
TRUSTED = ["sympy expression tree API", "python ast"]



def _has_raise_under(fn: ast.FunctionDef, pred) -> bool:
    scopes = [fn] + [x for x in ast.walk(fn) if isinstance(x, ast.FunctionDef) and x is not fn]
    for sc in scopes:
        for r in [x for x in ast.walk(sc) if isinstance(x, ast.Raise)]:
            conds = conditions_for(sc, r) or []
            if any(not isinstance(t, str) and pred(t, p) for t, p in conds):
                return True
    return False


def _calls(e: ast.AST) -> list[str]:
    return [dotted(c.func) or "" for c in ast.walk(e) if isinstance(c, ast.Call)]


def sum_like_rules(run: Run, mod, fn: ast.FunctionDef, label: str) -> None:
    run.ob("S3", f"{mod.name}:{label}:any-dimension")
    anyd = [c for c in ast.walk(fn) if isinstance(c, ast.Call) and dotted(c.func) == "is_any_dimension"]
    operands = {norm(c.args[0]) for c in anyd if c.args}
    if len(operands) < 2:
        run.violate("S3", f"{mod.name}:{label}:any-dimension", mod, fn,
                    f"the {label} handler consults the any-dimension escape for {sorted(operands) or 'no operand'}: a zero/infinite/NaN term on the other side is refused wrongly")
    run.ob("S3", f"{mod.name}:{label}:equivalence")
    if not _has_raise_under(fn, lambda t, p: "dimsys_SI.equivalent_dims" in _calls(t) and ((isinstance(t, ast.UnaryOp) and isinstance(t.op, ast.Not) and p is True) or (not isinstance(t, ast.UnaryOp) and p is False))):
        run.violate("S3", f"{mod.name}:{label}:equivalence", mod, fn, f"the {label} handler no longer refuses operands whose dimensions fail dimsys_SI.equivalent_dims")

def check(run: Run) -> None:
    run.rule("S1", "every child of the node is passed, itself, to the recursive collector on every path of its handler; all parts of the split reach the result")
    run.rule("S2", "dispatch table complete; no class listed before its subclass; first-match dispatch loop")
    run.rule("S3", "common-dimension helper: equivalent_dims refusal + any-dimension escape for numbers, quantities and symbolic terms; Pow demands a dimensionless exponent")
    run.rule("S5", "Symbolic wrappers take their dimension from collect_expression_and_dimension(expr)[1]")
    run.rule("S6", "Mul/Add/Pow/Derivative handlers combine child values and dimensions with the operator of the node")
    w = World(run.src)
    from .c04 import _k5
    _k5(run, w)  # the any-dimension predicate itself (shared with C04): exactly {0, +oo, -oo, NaN}, magnitude independent
    info = run_collector_rules(run, w, CE, "_split_numeric_and_symbolic")
    mod, h = info["mod"], info["handlers"]
    # leaves that carry a declared dimension: objects with a `dimension` attribute, and the ELEMENTS p[i] of an indexed symbol (sympy.Indexed has no such
    # attribute: its dimension is that of its base)
    ent = next((f_ for f_ in mod.tree.body if isinstance(f_, ast.FunctionDef) and f_.name == "collect_expression_and_dimension"), None)
    if ent is None:
        raise AnalysisError("C06: collect_expression_and_dimension not found")
    run.ob("S2", f"{mod.name}:leaf:Indexed")
    idx_ok = False
    for t_ in [x for x in ast.walk(ent) if isinstance(x, ast.If)]:
        if any(isinstance(c_, ast.Call) and dotted(c_.func) == "isinstance" and len(c_.args) == 2 and "Indexed" in {(dotted(e_) or "").split(".")[-1]
               for e_ in (c_.args[1].elts if isinstance(c_.args[1], ast.Tuple) else [c_.args[1]])} for c_ in ast.walk(t_.test)):
            for r_ in [x for st_ in t_.body for x in ast.walk(st_) if isinstance(x, ast.Return) and x.value is not None]:
                txt = norm(r_.value, 200)
                if "base" in txt and "dimension" in txt:
                    idx_ok = True
    handled_in_table = any(k in h for k in ("Indexed", ))
    if not (idx_ok or handled_in_table):
        run.violate("S2", f"{mod.name}:leaf:Indexed", mod, ent,
                    "the symbolic collector has no case for sympy.Indexed: the element p[i] of an indexed symbol falls through to the dimensionless default, so a sum over "
                    "elements of a pressure is inferred as a number (p[1] + 1 accepted, p[1] + p[2] - p_total refused)")
    if any(k not in h for k in ("Mul", "Add", "Pow", "Derivative", "Min", "Max")):
        return  # a missing dispatch entry is reported by S2; the handler-specific rules have nothing to look at
    # S1 (second half): every part of the split reaches the returned dimension / value
    for cls in ("Mul", "Add", "Min"):
        fn = h[cls]
        split = [s for s in ast.walk(fn) if isinstance(s, ast.Assign) and isinstance(s.value, ast.Call) and dotted(s.value.func) == "_split_numeric_and_symbolic"]
        if not split:
            continue
        tg = split[0].targets[0]
        if not (isinstance(tg, ast.Tuple) and len(tg.elts) == 3 and all(isinstance(e, ast.Name) for e in tg.elts)):
            raise AnalysisError(f"C06: {fn.name} does not destructure the split into three lists")
        nums, qtys, syms = [e.id for e in tg.elts]
        for cfg, r, fe, de in returned_pairs(fn):
            conds = conditions_for(fn, r.ast) or []
            if any(not isinstance(t, str) and "is_any_dimension" in _calls(t) and p is True for t, p in conds):
                continue
            run.ob("S1", f"{mod.name}:{fn.name}:parts-reach-result")
            uses_f = _names_in_slice(cfg, r, fe)
            uses_d = _names_in_slice(cfg, r, de)
            missing_f = [x for x in (nums, qtys, syms) if x not in uses_f]
            missing_d = [x for x in (qtys, syms) if x not in uses_d]
            if missing_f:
                run.violate("S1", f"{mod.name}:{fn.name}:value-ignores:{','.join(missing_f)}", mod, r.ast, f"the value returned by the {cls} handler does not depend on {missing_f}")
            if missing_d:
                run.violate("S1", f"{mod.name}:{fn.name}:dimension-ignores:{','.join(missing_d)}", mod, r.ast, f"the dimension returned by the {cls} handler does not depend on {missing_d}")
    # S3
    ud = _fn(mod, "_collect_unique_dimension")
    sum_like_discipline(run, mod, ud, "common-dimension", "collect_expression_and_dimension")
    run.ob("S3", "common-dimension:raises-UnitsError")
    loops = [s for s in ast.walk(ud) if isinstance(s, ast.For)]
    for lp in loops:
        run.ob("S3", f"common-dimension:loop:{norm(lp.iter, 20)}")
        has_escape = any(isinstance(t, ast.If) and "is_any_dimension" in _calls(t.test) and len(t.body) == 1 and isinstance(t.body[0], ast.Continue) for t in lp.body)
        has_raise = any(isinstance(t, ast.If) and "dimsys_SI.equivalent_dims" in _calls(t.test) and any(isinstance(x, ast.Raise) for x in t.body) for t in lp.body)
        if not (has_escape and has_raise):
            run.violate("S3", f"{mod.name}:_collect_unique_dimension:loop:{norm(lp.iter, 20)}", mod, lp,
                        f"the loop over `{norm(lp.iter, 20)}` lacks {'the any-dimension escape' if not has_escape else 'the equivalent_dims refusal'}")
    if len(loops) < 2:
        run.violate("S3", f"{mod.name}:_collect_unique_dimension:loops", mod, ud, "quantities and symbolic terms are no longer both compared against the common dimension")
    for cls in ("Add", "Min", "Max"):
        fn = h[cls]
        run.ob("S3", f"{cls}:uses-common-dimension")
        calls = [c for c in ast.walk(fn) if isinstance(c, ast.Call) and dotted(c.func) == "_collect_unique_dimension"]
        if not calls or len(calls[0].args) != 3 or conditions_for(fn, stmt_of(fn, calls[0])) != []:
            run.violate("S3", f"{mod.name}:{fn.name}:common-dimension", mod, fn, f"the {cls} handler does not run the common-dimension check on (numbers, quantities, symbolic terms) unconditionally")
    pw = h["Pow"]
    run.ob("S3", "Pow:dimensionless-exponent")
    if not _has_raise_under(pw, lambda t, p: "dimsys_SI.is_dimensionless" in _calls(t) and "is_any_dimension" in _calls(t) and p is True):
        run.violate("S3", f"{mod.name}:_collect_pow:exponent", mod, pw, "the Pow handler no longer refuses a dimensional exponent")
    # S5
    s = Fn(w, "symplyphysics.core.operations.symbolic", "Symbolic.__init__")
    run.ob("S5", "Symbolic.__init__")
    ok = False
    for n in s.cfg.stmt_nodes():
        a = n.ast
        if isinstance(a, ast.Assign) and any(dotted(t) == "self.dimension" for t in a.targets):
            v = a.value
            if isinstance(v, ast.Subscript) and isinstance(v.slice, ast.Constant) and v.slice.value == 1 and isinstance(v.value, ast.Call) \
                    and s.callee(n, v.value) == CE + ".collect_expression_and_dimension" and [dotted(x) for x in v.value.args] == ["expr"] \
                    and all(s.cfg.dominated_by(x, lambda y: y is n) for x in s.cfg.normal_exits()):
                ok = True
    if not ok:
        run.violate("S5", f"{s.qual}:dimension", s.mod, s.fn, "Symbolic.__init__ does not set self.dimension = collect_expression_and_dimension(expr)[1] on every path")
    # S6
    homomorphism(run, mod, "Mul", h["Mul"], {"Mult"}, {"Mult"})
    homomorphism(run, mod, "Add", h["Add"], {"Add"}, set())
    homomorphism(run, mod, "Pow", h["Pow"], {"Pow"}, {"Pow"})
    for cfg, r, fe, de in returned_pairs(h["Pow"]):
        run.ob("S6", "Pow:dimension-exponent")
        sf = {d.ast.value for d in cfg.slice(r, [fe]).def_nodes if isinstance(d.ast, ast.Assign)}
        pf = [x for e in cfg.slice(r, [fe]).exprs for x in ast.walk(e) if isinstance(x, ast.BinOp) and isinstance(x.op, ast.Pow)]
        pd = [x for e in cfg.slice(r, [de]).exprs for x in ast.walk(e) if isinstance(x, ast.BinOp) and isinstance(x.op, ast.Pow)]
        if len(pf) != 1 or len(pd) != 1 or not same_exponent(cfg, r, pf[0].right, pd[0].right):
            run.violate("S6", f"{mod.name}:_collect_pow:exponent", mod, r.ast, "value and dimension are not raised to the same exponent value")
        elif not any(c_.split(".")[-1] in ("nsimplify", "Rational") for c_ in cfg.slice(r, [pd[0].right]).calls):
            run.violate("S6", f"{mod.name}:_collect_pow:float-exponent", mod, r.ast,
                        "the dimension is raised to the exponent as written: a float exponent (area**0.5) gives Dimension(length**1.0), which SymPy (Float(1.0) != 1) does not "
                        "consider equivalent to length; the dimension's exponent must be made exact (nsimplify / Rational)")
    dv = h["Derivative"]
    for cfg, r, fe, de in returned_pairs(dv):
        run.ob("S6", "Derivative:dimension")
        od = ops_in_slice(cfg, r, de)
        if not ({"Div"} <= od <= {"Div", "Pow"}):
            run.violate("S6", f"{mod.name}:{dv.name}:dimension", mod, r.ast, f"the Derivative handler combines dimensions with {sorted(od)}; expected division by (variable dimension ** order)")
    # early return for objects that carry their own dimension
    ent = _fn(mod, "collect_expression_and_dimension")
    run.ob("S6", "leaf:has-dimension")
    good = False
    for t in [x for x in ast.walk(ent) if isinstance(x, ast.If)]:
        if isinstance(t.test, ast.Call) and dotted(t.test.func) == "hasattr" and len(t.test.args) == 2 and isinstance(t.test.args[1], ast.Constant) and t.test.args[1].value == "dimension":
            if len(t.body) == 1 and isinstance(t.body[0], ast.Return) and isinstance(t.body[0].value, ast.Tuple) and len(t.body[0].value.elts) == 2:
                e0, e1 = t.body[0].value.elts
                if dotted(e0) == dotted(t.test.args[0]) and ((isinstance(e1, ast.Call) and dotted(e1.func) == "getattr" and e1.args[1].value == "dimension") or dotted(e1) == f"{dotted(e0)}.dimension"):
                    good = True
    if not good:
        run.violate("S6", f"{mod.name}:entry:leaf", mod, ent, "symbols/quantities/functions no longer return (themselves, their declared dimension)")


def _names_in_slice(cfg, r, e) -> set:
    sl = cfg.slice(r, [e])
    out = set()
    for x in sl.exprs:
        for n in ast.walk(x):
            if isinstance(n, ast.Name):
                out.add(n.id)
    return out
