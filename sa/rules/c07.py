"""C07 - unit conversion: ratio form, gate dominance, SI base table, Celsius affine inverse (E3 + E1)."""
from __future__ import annotations

import ast
from fractions import Fraction

from ..core import Run, AnalysisError, dotted, norm
from ..dim import World
from ..units import unit_table, dimension_table, si_value, Dim, BASE
from ..flow import Fn, kw, node_calls, node_of, monomial, conditions_for, stmt_of, numeric_consts

EXPLANATION = (
    "U1 convert_to returns, in the monomial domain over {value.scale_factor, target.scale_factor}, value^1 * target^-1 with "
    "coefficient 1 - from which n*unit = quantity, composition a->b->c = a->c and inverse conversions follow given C05; U2 the "
    "dimension assertion on (value, target.dimension) dominates the return; U3 convert_to_si passes "
    "dimension_to_si_unit(value.dimension) as target and convert_to_float passes 1; U4 the SI base table is total over the seven "
    "SI base dimensions and maps each to a unit which SymPy's tables (read from source) give that dimension and SI value 1, and "
    "dimension_to_si_unit multiplies table[dim] ** exponent over all dimensional dependencies; U5 the Celsius helpers are the "
    "affine maps x + c and x - c with the same constant c, which folds to 273.15, and the quantity variants route through them; "
    "U6 evaluate_expression substitutes, for every quantity atom, its convert_to_si value; U7 the helpers are stateless (no memoisation, "
    "no global state, no stores into arguments). Exactness of float division and "
    "SymPy's subs are not decided.")
ASSUMPTIONS = ["scale factors are SI scale factors (C05)", "SymPy's get_dimensional_dependencies returns base-dimension exponents"]
TRUSTED = ["SymPy unit sources", "python ast"]

CONV = "symplyphysics.core.convert"
DIMS = "symplyphysics.core.dimensions.dimensions"
CEL = "symplyphysics.core.symbols.celsius"
AED = DIMS + ".assert_equivalent_dimension"
QTY = "symplyphysics.core.symbols.quantities.Quantity"


def check(run: Run) -> None:
    for rid, text in [
        ("U1", "convert_to, evaluated on quantity / non-quantity operands, is scale(value) / scale(target) of the operands (a non-quantity wrapped by Quantity(x) unchanged)"),
        ("U2", "assert_equivalent_dimension(value, ..., target_unit.dimension) has been called on exactly the two operands whenever convert_to / convert_to_si / convert_to_float return - also in a second call with the same dimensions"),
        ("U3", "convert_to_si targets dimension_to_si_unit(value.dimension); convert_to_float targets 1"),
        ("U4", "SI base table total over the seven base dimensions, each mapped to a unit of that dimension with SI value 1; product of table[dim]**n"),
        ("U5", "Celsius: to_kelvin = x + c, from_kelvin = x - c, same c = 273.15; quantity variants route through them"),
        ("U6", "evaluate_expression substitutes convert_to_si(q) for every quantity atom q"),
    ]:
        run.rule(rid, text)
    w = World(run.src)
    # ---- U4
    dm = run.src.need(DIMS)
    table = None
    for s in dm.tree.body:
        if isinstance(s, ast.Assign) and len(s.targets) == 1 and isinstance(s.targets[0], ast.Name) and s.targets[0].id == "_si_conversions":
            table = s
    run.require(table is not None and isinstance(table.value, ast.Dict), "_si_conversions dict literal not found")
    dims, units = dimension_table(), unit_table()
    seen = {}
    for k, v in zip(table.value.keys, table.value.values):
        kd, vd = dotted(k) or "", dotted(v) or ""
        run.ob("U4", f"entry:{kd}")
        if not (kd.startswith("units.") and vd.startswith("units.")):
            raise AnalysisError(f"C07/U4: table entry {norm(k)}: {norm(v)} not understood")
        kdim = dims.get(kd.split(".", 1)[1])
        u = units.unit(vd.split(".", 1)[1])
        if kdim is None or u is None or u[1] is None:
            raise AnalysisError(f"C07/U4: cannot resolve {kd} / {vd} in SymPy's tables")
        seen[kd.split(".", 1)[1]] = kdim
        scale, udim = u
        if udim != kdim:
            run.violate("U4", f"{DIMS}:_si_conversions:{kd}:dimension", dm, v, f"{kd} is mapped to {vd}, whose dimension is {udim}, not {kdim}")
        elif complex(si_value(scale, udim)) != 1:
            run.violate("U4", f"{DIMS}:_si_conversions:{kd}:scale", dm, v, f"{kd} is mapped to {vd}, whose SI value is {si_value(scale, udim)}, not 1 (not the SI base unit)")
    for b in BASE:
        run.ob("U4", f"total:{b}")
        if Dim({b: 1}) not in seen.values():
            run.violate("U4", f"{DIMS}:_si_conversions:missing:{b}", dm, table, f"the SI base dimension `{b}` has no entry: its factor silently becomes 1")
    # the product itself, by evaluation: dimension_to_si_unit(d) for a dimension with all seven bases at distinct (also fractional, negative) exponents
    run.ob("U4", "product")
    from fractions import Fraction as _Fr
    from ..pyreader import PyReader, Raised
    from ..alg import var as _var, num as _num, op as _op
    from ..exprtree import same_value as _same

    class _SIReader(PyReader):

        def global_value(self, n):
            d_ = dotted(n)
            if d_ and d_.startswith("units."):
                return _var(d_)
            if d_ == "dimsys_SI":
                return ("dimsys", )
            return super().global_value(n)

        def hook_method(self, base, attr, args, kwargs, n):
            if base == ("dimsys", ) and attr == "get_dimensional_dependencies" and len(args) == 1 and args[0] == "DIMENSION":
                return dict(self.deps)
            return NotImplemented

    R_ = _SIReader(dm.tree, "dimensions.py")
    exps = [_Fr(2), _Fr(1), _Fr(-3), _Fr(1, 2), _Fr(-1), _Fr(3), _Fr(-2, 3)]
    R_.deps = {_var(f"units.{b}"): _num(e) for b, e in zip(BASE, exps)}
    try:
        table_v = R_.global_value(ast.Name(id="_si_conversions", ctx=ast.Load()))
        got = R_.call("dimension_to_si_unit", ["DIMENSION"])
    except Raised as r_:
        table_v, got = None, r_
    want = _num(1)
    if isinstance(table_v, dict):
        for k_, e_ in R_.deps.items():
            want = _op("mul", want, _op("pow", table_v.get(k_, _num(1)), e_))
    from ..alg import T as _T
    if not (isinstance(table_v, dict) and isinstance(got, (_T, int)) and _same(got, want)):
        run.violate("U4", f"{DIMS}:dimension_to_si_unit:product", dm, dm.tree,
                    f"dimension_to_si_unit is not the product over all dimensional dependencies of _si_conversions[dim] ** exponent "
                    f"(for exponents {dict(zip(BASE, map(str, exps)))} it gives {got!r})")

    # ---- U5 / U6 by evaluation
    _u7_purity(run)
    _u123(run)
    _u5(run)
    _u6(run)
    _u8_prefixes(run)


def _u5(run: Run) -> None:
    """the Celsius helpers are EVALUATED (sa/pyreader.py) on a symbolic temperature: what they compute is compared with x + 273.15 / x - 273.15, whatever the shape
    of the code (helpers inlined or not)"""
    from fractions import Fraction as _Fr
    from ..alg import T as _T, var as _var, num as _num, op as _op
    from ..gate import GateReader, Obj
    from ..pyreader import Raised
    from ..exprtree import same_value as _same
    cm = run.src.need(CEL)
    OFFSET = _num(_Fr("273.15"))

    class R(GateReader):

        def __init__(self):
            super().__init__(cm.tree, "celsius.py")
            self.quantities = []

        def global_value(self, n):
            d_ = dotted(n)
            if d_ and d_.startswith("Celsius.") and d_.count(".") == 1:
                # a class attribute of Celsius (the offset, or whatever constant a rewrite adds)
                cls_ = next((s_ for s_ in cm.tree.body if isinstance(s_, ast.ClassDef) and s_.name == "Celsius"), None)
                for st in (cls_.body if cls_ else []):
                    if isinstance(st, (ast.Assign, ast.AnnAssign)) and st.value is not None \
                            and any(isinstance(t, ast.Name) and t.id == d_.split(".")[1] for t in (st.targets if isinstance(st, ast.Assign) else [st.target])):
                        return self.ev(st.value, {}, {})
                self.fail(n, f"{d_} not found")
            if d_ in ("units.temperature", ):
                return ("dimension", "temperature")
            if d_ in ("units.kelvin", "units.K"):
                return ("unit", "kelvin")
            if d_ and d_.startswith("units.") and d_.count(".") == 1:
                return ("dimension", d_.split(".")[1])
            return super().global_value(n)

        def hook_binop(self, o, l, r, n):
            # value * units.kelvin: the kelvin quantity of that value (dimensionless 0 when the value is zero - what the explicit dimension is for)
            if isinstance(o, ast.Mult) and (l == ("unit", "kelvin") or r == ("unit", "kelvin")):
                other = r if l == ("unit", "kelvin") else l
                return ("times-kelvin", other)
            if isinstance(o, ast.Div) and r == ("unit", "kelvin") and isinstance(l, Obj):
                return ("over-kelvin", l)
            return super().hook_binop(o, l, r, n)

        def hook_call(self, n, env, fns):
            name = (dotted(n.func) or "").split(".")[-1]
            if name == "Celsius" and len(n.args) <= 1:
                return Obj("Celsius", {"value": self.ev(n.args[0], env, fns) if n.args else _num(0)}, "celsius")
            if name == "Quantity" and name not in self.functions and n.args:
                a0 = self.ev(n.args[0], env, fns)
                kw_ = {k.arg: self.ev(k.value, env, fns) for k in n.keywords if k.arg}
                if a0 == ("unit", "kelvin"):
                    return Obj("Quantity", {"scale_factor": _num(1), "dimension": ("dimension", "temperature")}, "kelvin")
                q_ = Obj("Quantity", {"expr": a0, "dimension_kw": kw_.get("dimension")}, "built")
                self.quantities.append(q_)
                return q_
            if name in ("float", "N") and len(n.args) == 1:
                return self.ev(n.args[0], env, fns)
            if name == "getattr" and len(n.args) in (2, 3):
                v, a_ = self.ev(n.args[0], env, fns), self.ev(n.args[1], env, fns)
                if isinstance(v, Obj) and isinstance(a_, str):
                    if a_ in v.attrs:
                        return v.attrs[a_]
                    if len(n.args) == 3:
                        return self.ev(n.args[2], env, fns)
                    raise Raised("AttributeError", getattr(n, "lineno", 0))
            if name in ("convert_to_si", "scale_factor", "convert_to_float") and len(n.args) == 1 and name not in self.functions:
                v = self.ev(n.args[0], env, fns)
                if isinstance(v, Obj) and "scale_factor" in v.attrs:
                    return v.attrs["scale_factor"]  # kelvin is an SI base unit: the SI value of a temperature is its scale factor
            if name == "convert_to" and len(n.args) == 2 and name not in self.functions:
                v, u_ = self.ev(n.args[0], env, fns), self.ev(n.args[1], env, fns)
                if isinstance(v, Obj) and "scale_factor" in v.attrs and (u_ == ("unit", "kelvin") or (isinstance(u_, Obj) and u_.tag == "kelvin")):
                    self.events.append((v, "value", "convert_to", ("dimension", "temperature")))  # the library's convert_to checks the dimension itself (U2)
                    return v.attrs["scale_factor"]
            return super().hook_call(n, env, fns)

    c = _var("c")
    # absolute zero and below first (concrete values: a validation such as `if value <= 0: raise` decides them, while it cannot be followed for a symbol): the helpers are
    # mutual inverses there too - to_kelvin(Celsius(-273.15)) is 0, so from_kelvin(0) is -273.15 degrees
    for kelvin in (_num(0), _num(_Fr(-5, 2))):
        run.ob("U5", f"from_kelvin:{kelvin!r} K")
        rd = R()
        try:
            got = rd.call("from_kelvin", [kelvin])
        except Raised as r_:
            got = r_
        val = got.attrs.get("value") if isinstance(got, Obj) and got.cls == "Celsius" else None
        if not (isinstance(val, (_T, int)) and _same(val, _op("sub", kelvin, OFFSET))):
            run.violate("U5", f"{CEL}:from_kelvin:at-and-below-zero", cm, cm.tree,
                        f"from_kelvin({kelvin!r}) {'raises ' + got.exc if isinstance(got, Raised) else 'gives ' + repr(val)}; expected {kelvin!r} - 273.15: to_kelvin(Celsius(-273.15)) is exactly 0, "
                        f"so a helper that refuses (or changes) 0 K is not the inverse of to_kelvin")
            break
    # to_kelvin / from_kelvin
    for name, arg, want in (("to_kelvin", lambda: Obj("Celsius", {"value": c}, "arg"), _op("add", c, OFFSET)), ("from_kelvin", lambda: c, _op("sub", c, OFFSET))):
        run.ob("U5", name)
        rd = R()
        try:
            got = rd.call(name, [arg()])
        except Raised as r_:
            got = r_
        val = got.attrs.get("value") if isinstance(got, Obj) and got.cls == "Celsius" else got
        if name == "from_kelvin" and not (isinstance(got, Obj) and got.cls == "Celsius"):
            val = None
        if not (isinstance(val, (_T, int)) and _same(val, want)):
            run.violate("U5", f"{CEL}:{name}:affine", cm, cm.tree, f"{name}(x) evaluates to {val!r}; expected x {'+' if name == 'to_kelvin' else '-'} 273.15 (one shared offset)")
    # to_kelvin_quantity
    run.ob("U5", "to_kelvin_quantity")
    rd = R()
    try:
        got = rd.call("to_kelvin_quantity", [Obj("Celsius", {"value": c}, "arg")])
    except Raised as r_:
        got = r_
    ok = isinstance(got, Obj) and got.cls == "Quantity" and got in rd.quantities
    expr = got.attrs.get("expr") if ok else None
    if ok and isinstance(expr, tuple) and expr and expr[0] == "times-kelvin":
        inner, explicit = expr[1], False
    else:
        inner, explicit = expr, ok and got.attrs.get("dimension_kw") == ("dimension", "temperature")
    if not (ok and isinstance(inner, (_T, int)) and _same(inner, _op("add", c, OFFSET))):
        run.violate("U5", f"{CEL}:to_kelvin_quantity:route", cm, cm.tree, f"to_kelvin_quantity(Celsius(x)) does not build the quantity of x + 273.15 kelvin (got {got!r} from {expr!r})")
    else:
        run.ob("U5", "to_kelvin_quantity:zero-keeps-dimension")
        if not explicit:
            run.violate("U5", f"{CEL}:to_kelvin_quantity:zero-dimension", cm, cm.tree,
                        "to_kelvin_quantity builds its Quantity without an explicit temperature dimension: at absolute zero `0 * kelvin` is the plain number 0, "
                        "the quantity becomes dimensionless and from_kelvin_quantity(to_kelvin_quantity(Celsius(-273.15))) fails - the helpers are not mutual inverses there")
    # from_kelvin_quantity
    run.ob("U5", "from_kelvin_quantity")
    rd = R()
    sf = _var("sf")
    q = Obj("Quantity", {"scale_factor": sf, "dimension": ("dimension", "temperature")}, "q")
    try:
        got = rd.call("from_kelvin_quantity", [q])
    except Raised as r_:
        got = r_
    val = got.attrs.get("value") if isinstance(got, Obj) and got.cls == "Celsius" else None
    if not (isinstance(val, (_T, int)) and _same(val, _op("sub", sf, OFFSET))):
        run.violate("U5", f"{CEL}:from_kelvin_quantity:route", cm, cm.tree,
                    f"from_kelvin_quantity(q) does not give Celsius(value of q in kelvin - 273.15) (got {got!r} with value {val!r})")
    run.ob("U5", "from_kelvin_quantity:dimension-checked")
    if not any(e_[0] is q and e_[3] == ("dimension", "temperature") for e_ in rd.events):
        run.violate("U5", f"{CEL}:from_kelvin_quantity:dimension", cm, cm.tree,
                    "from_kelvin_quantity converts its argument without checking that it is a temperature (SymPy's convert_to plus subs(kelvin, 1) strips the unit whatever "
                    "its exponent): 300 K**2 or 300/K come back as 26.85 degrees Celsius")



def _u123(run: Run) -> None:
    """convert_to / convert_to_si / convert_to_float EVALUATED on quantity and non-quantity operands: the value is scale(value) / scale(target) of the operands
    (wrapped by Quantity(x) unchanged where they are no quantities), assert_equivalent_dimension(value, ..., target.dimension) has been called on exactly those two"""
    from ..alg import T as _T, var as _var, num as _num, op as _op, app as _app, normalize as _norm
    from ..pyreader import PyReader, Raised
    cvm = run.src.need(CONV)
    for name in ("convert_to", "convert_to_si", "convert_to_float"):
        run.require(any(isinstance(x, ast.FunctionDef) and x.name == name for x in cvm.tree.body), f"{name} not found in convert.py")

    class Q:

        def __init__(self, tag, dim=None):
            self.tag, self.dim = tag, dim or f"dim({tag})"

        def __repr__(self):
            return f"<{self.tag}>"

    class D:

        def __init__(self, tag):
            self.tag = tag

        def __eq__(self, o):
            return isinstance(o, D) and o.tag == self.tag

        def __hash__(self):
            return hash(self.tag)

    def tag_of(v):
        return v.tag if isinstance(v, Q) else repr(_norm(v) if isinstance(v, _T) else v)

    class R(PyReader):

        def __init__(self):
            super().__init__(cvm.tree, "convert.py", depth_limit=8)
            self.asserted: list = []

        def is_instance(self, v, names, n):
            if isinstance(v, Q):
                return "SymQuantity" in names or "Quantity" in names
            if isinstance(v, (_T, int)):
                return False if set(names) <= {"SymQuantity", "Quantity", "Prefix"} else super().is_instance(v, names, n)
            return super().is_instance(v, names, n)

        def hook_attr(self, base, attr, n):
            if isinstance(base, Q) and attr == "scale_factor":
                return _var(f"sf({base.tag})")
            if isinstance(base, Q) and attr == "dimension":
                return D(base.dim)
            if isinstance(base, D) and attr == "name":
                return f"name({base.tag})"
            if isinstance(base, _T) and attr in ("real", "imag"):
                return _app(attr, base)  # a part of a Python number: another function of the value than float(...)
            return NotImplemented

        def hook_call(self, n, env, fns):
            name = (dotted(n.func) or "").split(".")[-1]
            if name == "isinstance" and len(n.args) == 2 and "isinstance" not in env:
                return self.is_instance(self.ev(n.args[0], env, fns), self.class_names(n.args[1]), n)
            if name == "Quantity" and isinstance(n.func, ast.Name) and name not in self.functions and name not in env:
                args = [self.ev(a, env, fns) for a in n.args]
                kw_ = {k_.arg: self.ev(k_.value, env, fns) for k_ in n.keywords if k_.arg}
                extra = "".join(f";{k_}={v_!r}" for k_, v_ in sorted(kw_.items())) + "".join(f";{tag_of(a)}" for a in args[1:])
                return Q(f"wrap({tag_of(args[0]) if args else ''}{extra})")
            if name == "assert_equivalent_dimension" and name not in self.functions:
                args = [self.ev(a, env, fns) for a in n.args]
                kw_ = {k_.arg: self.ev(k_.value, env, fns) for k_ in n.keywords if k_.arg}
                self.asserted.append((args[0] if args else kw_.get("arg"), args[3] if len(args) > 3 else kw_.get("expected_unit")))
                return None
            if name == "dimension_to_si_unit" and name not in self.functions and len(n.args) == 1:
                d = self.ev(n.args[0], env, fns)
                if not isinstance(d, D):
                    self.fail(n, "dimension_to_si_unit of something that is not a quantity's dimension")
                return _var(f"si_unit({d.tag})")  # a product of units: an expression, no quantity
            if name in ("float", "complex", "int", "round") and len(n.args) == 1 and name not in env and isinstance(n.func, ast.Name):
                return _app(name, self.ev(n.args[0], env, fns))  # the conversion to a Python number, kept as written: convert_to_float is float(...)
            return NotImplemented

    def ratio(a, b):
        return _op("div", _var(f"sf({a})"), _var(f"sf({b})"))

    def same_(x, y):
        try:
            return isinstance(x, (_T, int)) and _norm(x).eq(_norm(y))
        except (AnalysisError, ZeroDivisionError):
            return repr(x) == repr(y)

    qa, qb, x, y = Q("a"), Q("b"), _var("x"), _var("y")
    table = [("convert_to", "quantity, quantity", [qa, qb], "a", "b", None),
             ("convert_to", "number, quantity", [x, qb], "wrap(x)", "b", None),
             ("convert_to", "quantity, expression", [qa, y], "a", "wrap(y)", None),
             ("convert_to", "expression, expression", [x, y], "wrap(x)", "wrap(y)", None),
             ("convert_to_si", "quantity", [qa], "a", "wrap(si_unit(dim(a)))", None),
             ("convert_to_si", "expression", [x], "wrap(x)", "wrap(si_unit(dim(wrap(x))))", None),
             ("convert_to_float", "quantity", [qa], "a", "wrap(1)", "float"),
             ("convert_to_float", "number", [x], "wrap(x)", "wrap(1)", "float")]
    # a second call on the same module state, with OTHER quantities of the same two dimensions: the assertion is per call (it also looks at the value: zero, NaN)
    table.append(("convert_to", "quantity, quantity - after a call with the same dimensions", [Q("a2", "dim(a)"), Q("b2", "dim(b)")], "a2", "b2", None))
    dims = {"a2": "dim(a)", "b2": "dim(b)"}
    for fname, label, args, va, tb, outer in table:
        rid = "U1" if fname == "convert_to" else "U3"
        run.ob(rid, f"{fname}({label}):value")
        run.ob("U2", f"{fname}({label}):dimension-asserted")
        rd = R()
        try:
            if "after a call" in label:
                rd.call(fname, [qa, qb])
                rd.asserted.clear()
            got = rd.call(fname, list(args))
        except Raised as r_:
            run.violate(rid, f"{CONV}:{fname}:raises", cvm, cvm.tree, f"{fname}({label}) raises {r_.exc} before any dimension has been compared")
            continue
        want = ratio(va, tb)
        inner = got.args[0] if outer and isinstance(got, _T) and got.op == "app" and got.val == outer and len(got.args) == 1 else (None if outer else got)
        if inner is None or not same_(inner, want):
            run.violate(rid, f"{CONV}:{fname}:{'ratio' if fname == 'convert_to' else 'target'}", cvm, cvm.tree,
                        f"{fname}({label}) evaluates to {got!r}; the number n with n*unit = quantity is " + (f"{outer}(" if outer else "") + f"sf({va}) / sf({tb})" + (")" if outer else "")
                        + " (sf = scale factor; wrap(x) = Quantity(x), the operand wrapped unchanged; si_unit = dimension_to_si_unit(value.dimension))")
        if not any(isinstance(a0, Q) and a0.tag == va and a3 == D(dims.get(tb, f"dim({tb})")) for a0, a3 in rd.asserted):
            run.violate("U2", f"{CONV}:{fname}:gate", cvm, cvm.tree,
                        f"{fname}({label}) returns without assert_equivalent_dimension(value, ..., target_unit.dimension) on its two operands "
                        f"(asserted: {[(tag_of(a0) if a0 is not None else None, getattr(a3, 'tag', a3)) for a0, a3 in rd.asserted]}): conversion between inequivalent dimensions is answered")
    run.sample({"function": CONV + ".convert_to", "cases": [f"{f_}({l_})" for f_, l_, *_ in table]})


def _u6(run: Run) -> None:
    """evaluate_expression EVALUATED on an expression with two quantities, a prefix and a plain symbol: every leaf the quantity collector gives a scale factor to
    (quantities AND prefixes, C05) is replaced by its SI value, nothing else changes"""
    from ..alg import T as _T, var as _var, num as _num, op as _op, app as _app, substitute as _subst
    from ..pyreader import PyReader, Raised
    from ..exprtree import same_value as _same
    cvm = run.src.need(CONV)
    q1, q2, k, x = _var("q1"), _var("q2"), _var("kilo"), _var("x")
    expr = _op("add", _op("mul", _op("mul", _num(5), k), q1), _op("mul", x, _op("pow", q2, _num(2))))
    kinds = {"q1": "SymQuantity", "q2": "SymQuantity", "kilo": "Prefix"}

    class _NewQ:

        def __init__(self, scale_factor, dimension):
            self.scale_factor, self.dimension = scale_factor, dimension

    class R(PyReader):

        def class_token(self, v):
            return v[1] if isinstance(v, tuple) and len(v) == 2 and v[0] == "class" else None

        def global_value(self, n):
            if isinstance(n, ast.Name) and n.id in ("SymQuantity", "Prefix", "Quantity") and n.id not in self.functions:
                return ("class", "SymQuantity" if n.id == "Quantity" else n.id)
            return super().global_value(n)

        def hook_method(self, base, attr, args, kwargs, n):
            if isinstance(base, _T) and attr == "atoms" and args:
                want = {self.class_token(a) for a in args}
                names = []
                def walk(t):
                    if t.op == "var":
                        if kinds.get(t.val) in want and t.val not in names:
                            names.append(t.val)
                    for a_ in t.args:
                        walk(a_)
                walk(base)
                return [_var(nm) for nm in names]
            if isinstance(base, _T) and attr in ("evalf", "n"):
                # the numerical evaluation SymPy performs with exactly these options: options nobody asked for (chop=True zeroes 1.6e-19) are another function
                opts = ",".join(f"{k_}={v_!r}" for k_, v_ in sorted((kwargs or {}).items()))
                return _app("evalf" + (f"[{opts}]" if opts else ""), base)
            return NotImplemented

        def is_instance(self, v, names, n):
            if isinstance(v, _T) and v.op == "var" and v.val in kinds:
                return kinds[v.val] in names or (kinds[v.val] == "SymQuantity" and "Quantity" in names)
            if isinstance(v, _NewQ):
                return "SymQuantity" in names or "Quantity" in names
            return super().is_instance(v, names, n)

        def hook_attr(self, base, attr, n):
            if isinstance(base, _NewQ) and attr in ("scale_factor", "dimension"):
                return getattr(base, attr)  # a number wrapped as Quantity(number, dimension=d) has that number as its (SymPy, gram-based) scale factor
            if isinstance(base, _T) and base.op == "var" and kinds.get(base.val) == "SymQuantity" and attr == "dimension":
                return _var(f"dim({base.val})")
            if isinstance(base, _T) and base.op == "var" and kinds.get(base.val) == "Prefix" and attr == "scale_factor":
                return _var("factor(kilo)")
            if isinstance(base, _T) and base.op == "var" and kinds.get(base.val) == "SymQuantity" and attr == "scale_factor":
                return _var(f"sf({base.val})")  # SymPy's gram-based scale factor, not the SI value
            return NotImplemented

        def hook_call(self, n, env, fns):
            name = (dotted(n.func) or "").split(".")[-1]
            if name == "convert_to_si" and len(n.args) == 1 and name in self.functions:
                v = self.ev(n.args[0], env, fns)
                if isinstance(v, _T) and v.op == "var" and kinds.get(v.val) == "SymQuantity":
                    return _var(f"si({v.val})")
            if name == "isinstance" and len(n.args) == 2 and "isinstance" not in env:
                return self.is_instance(self.ev(n.args[0], env, fns), self.class_names(n.args[1]), n)
            if name == "Quantity" and isinstance(n.func, ast.Name) and name not in self.functions and name not in env and len(n.args) == 1:
                v = self.ev(n.args[0], env, fns)
                kw_ = {k_.arg: self.ev(k_.value, env, fns) for k_ in n.keywords if k_.arg}
                if isinstance(v, _T) and set(kw_) <= {"dimension"} and not any(_mentions(v, nm) for nm in kinds):
                    return _NewQ(v, kw_.get("dimension"))
            return NotImplemented

    for evaluate, options in ((False, {}), (True, {}), (True, {"n": 5})):
        run.ob("U6", f"evaluate_expression[evaluate={evaluate}{', n=5' if options else ''}]")
        rd = R(cvm.tree, "convert.py", depth_limit=8)
        try:
            got = rd.call("evaluate_expression", [expr], {"evaluate": evaluate, **options})
        except Raised as r_:
            got = r_
        ev_name = "evalf" + ("[" + ",".join(f"{k_}={v_!r}" for k_, v_ in sorted(options.items())) + "]" if options else "")  # the caller's options and no others
        si = (lambda nm: _app(ev_name, _var(f"si({nm})"))) if evaluate else (lambda nm: _var(f"si({nm})"))
        want = _subst(expr, {"q1": si("q1"), "q2": si("q2"), "kilo": _var("factor(kilo)")})
        if not isinstance(got, _T):
            run.violate("U6", f"{CONV}:evaluate_expression:substitution", cvm, cvm.tree, f"evaluate_expression(evaluate={evaluate}) evaluates to {got!r}, not an expression")
            continue
        left = sorted(nm for nm in kinds if _mentions(got, nm))
        if left:
            what = sorted({kinds[nm] for nm in left})
            rid_key = "leaf-kinds:" + ",".join(what)
            run.violate("U6", f"{CONV}:evaluate_expression:{rid_key}", cvm, cvm.tree,
                        f"evaluate_expression leaves {what} atoms in the expression: the quantity collector gives them a scale factor (5 * units.kilo * units.meter is 5000 m), "
                        f"so the evaluated expression is not a number and does not have the value of the input")
        elif not _same(got, want):
            run.violate("U6", f"{CONV}:evaluate_expression:substitution", cvm, cvm.tree,
                        f"evaluate_expression does not replace every quantity atom q by convert_to_si(q) (possibly evalf'd) and every prefix by its scale factor: got {got!r}")


SI_PREFIXES = {"yotta": 24, "zetta": 21, "exa": 18, "peta": 15, "tera": 12, "giga": 9, "mega": 6, "kilo": 3, "hecto": 2, "deca": 1, "deci": -1, "centi": -2, "milli": -3,
               "micro": -6, "nano": -9, "pico": -12, "femto": -15, "atto": -18, "zepto": -21, "yocto": -24, "ronna": 27, "quetta": 30, "ronto": -27, "quecto": -30}


def _u8_prefixes(run: Run) -> None:
    """U8: the library's own table of SI prefixes (core/symbols/prefixes.py) is a finite table: the module-level value `prefixes` is EVALUATED (a namedtuple built from
    keywords, from a dict of exponents, from a comprehension - whatever) and every field compared with the SI power of ten"""
    from fractions import Fraction as _Fr
    from ..pyreader import PyReader, Raised
    from ..alg import T as _T, normalize as _normalize
    run.rule("U8", "every entry of symplyphysics.prefixes is the SI power of ten of its name (deca = 10, deci = 1/10, ...)")
    PM = "symplyphysics.core.symbols.prefixes"
    if PM not in run.src.mods:
        return
    m = run.src.need(PM)

    class R(PyReader):

        def hook_call(self, n, env, fns):
            name = (dotted(n.func) or "").split(".")[-1]
            if name == "namedtuple" and len(n.args) == 2 and name not in self.functions:
                fields = self.ev(n.args[1], env, fns)
                if isinstance(fields, str):
                    fields = fields.replace(",", " ").split()
                if isinstance(fields, dict):
                    fields = list(fields)
                if not (isinstance(fields, list) and all(isinstance(f_, str) for f_ in fields)):
                    self.fail(n, "namedtuple fields")
                return ("ntclass", tuple(fields))
            return NotImplemented

        def apply_value(self, fval, args, n, fns, kwargs=None):
            if isinstance(fval, tuple) and len(fval) == 2 and fval[0] == "ntclass":
                fields = list(fval[1])
                if len(args) > len(fields) or any(k not in fields for k in (kwargs or {})):
                    raise Raised("TypeError", getattr(n, "lineno", 0))
                vals = dict(zip(fields, args))
                vals.update(kwargs or {})
                if set(vals) != set(fields):
                    raise Raised("TypeError", getattr(n, "lineno", 0))
                return ("ntvalue", {f_: vals[f_] for f_ in fields})
            return super().apply_value(fval, args, n, fns, kwargs)

        def ev_call(self, n, env, fns):
            # Prefixes(...): the callee is a module-level VALUE (the namedtuple class)
            if isinstance(n.func, ast.Name) and n.func.id not in env and n.func.id not in self.functions:
                try:
                    fv = self.global_value(n.func)
                except AnalysisError:
                    fv = None
                if isinstance(fv, tuple) and len(fv) == 2 and fv[0] == "ntclass":
                    args = []
                    for a in n.args:
                        args += list(self.ev(a.value, env, fns)) if isinstance(a, ast.Starred) else [self.ev(a, env, fns)]
                    kw_ = {k.arg: self.ev(k.value, env, fns) for k in n.keywords if k.arg}
                    for k in n.keywords:
                        if k.arg is None:
                            kw_.update(self.ev(k.value, env, fns))
                    return self.apply_value(fv, args, n, fns, kw_)
            return super().ev_call(n, env, fns)

    rd = R(m.tree, "prefixes.py", depth_limit=6)
    try:
        table = rd.global_value(ast.Name(id="prefixes", ctx=ast.Load()))
    except Raised as r_:
        raise AnalysisError(f"C07/U8: building symplyphysics.prefixes raises {r_.exc}")
    if not (isinstance(table, tuple) and len(table) == 2 and table[0] == "ntvalue"):
        raise AnalysisError("C07/U8: symplyphysics.core.symbols.prefixes.prefixes is not a named tuple the evaluation can build: its entries are not folded, no verdict on them")
    for name, v in table[1].items():
        run.ob("U8", name)
        if name not in SI_PREFIXES:
            raise AnalysisError(f"C07/U8: prefix {name} is not in the checker's SI table")
        val = _Fr(v) if isinstance(v, int) and not isinstance(v, bool) else (v.val if isinstance(v, _T) and v.op == "num" else None)
        if val is None and isinstance(v, _T):
            try:
                nf = _normalize(v)
                val = nf.n.constant() / nf.d.constant() if hasattr(nf.n, "constant") else None
            except Exception:  # pylint: disable=broad-except
                val = None
        if val is None:
            raise AnalysisError(f"C07/U8: entry {name} of the prefix table does not fold to a number ({v!r})")
        if val != _Fr(10) ** SI_PREFIXES[name]:
            run.violate("U8", f"{PM}:{name}", m, m.tree, f"prefixes.{name} is {val}, the SI prefix {name} is 10**{SI_PREFIXES[name]}: every conversion to or from a {name}-unit is off by that factor")
    run.floor("U8", len(table[1]), 20, "entries of the prefix table")


def _mentions(t, name: str) -> bool:
    if isinstance(t, int):
        return False
    if t.op == "var":
        return t.val == name
    return any(_mentions(a, name) for a in t.args)


def _u7_purity(run: Run) -> None:
    """Conversion helpers are pure functions of their arguments: no store into an argument's or a global's attributes/items, no
    global/nonlocal, no memoising decorator. A cached result goes stale when the (mutable) argument changes: to_kelvin_quantity
    and to_kelvin then stop agreeing."""
    run.rule("U7", "conversion helpers are stateless: no stores into arguments/globals, no memoisation")
    for modname in (CEL, CONV):
        m = run.src.need(modname)
        for fn in [s for s in m.tree.body if isinstance(s, ast.FunctionDef)]:
            run.ob("U7", f"{modname}:{fn.name}")
            params = {a.arg for a in fn.args.posonlyargs + fn.args.args + fn.args.kwonlyargs}
            local = {x.id for x in ast.walk(fn) if isinstance(x, ast.Name) and isinstance(x.ctx, ast.Store)}
            for d in fn.decorator_list:
                dn = (dotted(d.func) if isinstance(d, ast.Call) else dotted(d)) or ""
                if dn.split(".")[-1] in ("cache", "lru_cache", "cacheit", "cached_property", "memoize"):
                    run.violate("U7", f"{modname}:{fn.name}:memoised", m, fn, f"{fn.name} is memoised ({dn}): results for mutable arguments (Celsius.value) go stale")
            for x in ast.walk(fn):
                if isinstance(x, (ast.Global, ast.Nonlocal)):
                    run.violate("U7", f"{modname}:{fn.name}:global", m, x, f"{fn.name} keeps state in a global")
                tg = []
                if isinstance(x, ast.Assign):
                    tg = x.targets
                elif isinstance(x, (ast.AugAssign, ast.AnnAssign)):
                    tg = [x.target]
                for t in tg:
                    if isinstance(t, (ast.Attribute, ast.Subscript)):
                        root = t
                        while isinstance(root, (ast.Attribute, ast.Subscript)):
                            root = root.value
                        if isinstance(root, ast.Name) and (root.id in params or root.id not in local):
                            run.violate("U7", f"{modname}:{fn.name}:store:{norm(t, 50)}", m, x,
                                        f"{fn.name} stores into `{norm(t, 50)}` (state attached to its argument or to a global): a later call can return a value "
                                        f"computed from an earlier state of the argument")
    cm = run.src.need(CEL)
    cls = next((s for s in cm.tree.body if isinstance(s, ast.ClassDef) and s.name == "Celsius"), None)
    if cls is not None:
        for meth in [s for s in cls.body if isinstance(s, ast.FunctionDef)]:
            for d in meth.decorator_list:
                if (dotted(d) or "").split(".")[-1] in ("cached_property", "cache", "lru_cache"):
                    run.violate("U7", f"{CEL}:Celsius.{meth.name}:memoised", cm, meth, f"Celsius.{meth.name} is memoised although Celsius.value is mutable")


def _inline(f: Fn, n, e: ast.AST):
    """replace a Name by its single reaching definition's value (one level), else keep"""
    if isinstance(e, ast.Name):
        ds = f.cfg.reaching().get(n, {}).get(e.id)
        if ds and len(ds) == 1:
            d = next(iter(ds))
            if d.kind == "stmt" and isinstance(d.ast, ast.Assign) and len(d.ast.targets) == 1 and isinstance(d.ast.targets[0], ast.Name):
                return d.ast.value
    return e


def _resolve_local(fn, node, e: ast.AST, depth: int = 3) -> ast.AST:
    """a local name bound exactly once (as seen from `node`) stands for its defining expression"""
    while depth > 0 and isinstance(e, ast.Name):
        ds = fn.cfg.reaching().get(node, {}).get(e.id)
        if not ds or len(ds) != 1:
            break
        dn = next(iter(ds))
        if not (dn.kind == "stmt" and isinstance(dn.ast, (ast.Assign, ast.AnnAssign)) and getattr(dn.ast, "value", None) is not None):
            break
        tg = dn.ast.targets if isinstance(dn.ast, ast.Assign) else [dn.ast.target]
        if not (len(tg) == 1 and isinstance(tg[0], ast.Name)):
            break
        e, node = dn.ast.value, dn
        depth -= 1
    return e


def _affine(v: ast.AST, param: str, fn=None, node=None):
    """+1 for <param-derived> + OFFSET, -1 for <param-derived> - OFFSET, None otherwise (locals bound once are looked through)"""
    if fn is not None:
        v = _resolve_local(fn, node, v)
    if isinstance(v, ast.BinOp) and isinstance(v.op, (ast.Add, ast.Sub)):
        l, r = v.left, v.right
        if fn is not None:
            l, r = _resolve_local(fn, node, l), _resolve_local(fn, node, r)
        is_off = lambda x: dotted(x) in ("Celsius.CELSIUS_TO_KELVIN_OFFSET", )
        is_par = lambda x: dotted(x) in (param, f"{param}.value")
        if is_par(l) and is_off(r):
            return +1 if isinstance(v.op, ast.Add) else -1
        if is_off(l) and is_par(r) and isinstance(v.op, ast.Add):
            return +1
    return None
