"""C07 - unit conversion: ratio form, gate dominance, SI base table, Celsius affine inverse (E3 + E1)."""
from __future__ import annotations

import ast
from fractions import Fraction

from ..core import Run, AnalysisError, dotted, norm
from ..dim import World
from ..units import unit_table, dimension_table, si_value, Dim, BASE
from ..flow import Fn, kw, node_calls, node_of, monomial, conditions_for, stmt_of, numeric_consts

EXPLANATION = (
    "U1 convert_to returns, in the monomial domain over {value.scale_factor, target.scale_factor}, value^1 * target^-1 with "
    "coefficient 1 - from which n*unit = quantity, composition a->b->c = a->c and inverse conversions follow given C05; U2 the "
    "dimension assertion on (value, target.dimension) dominates the return; U3 convert_to_si passes "
    "dimension_to_si_unit(value.dimension) as target and convert_to_float passes 1; U4 the SI base table is total over the seven "
    "SI base dimensions and maps each to a unit which SymPy's tables (read from source) give that dimension and SI value 1, and "
    "dimension_to_si_unit multiplies table[dim] ** exponent over all dimensional dependencies; U5 the Celsius helpers are the "
    "affine maps x + c and x - c with the same constant c, which folds to 273.15, and the quantity variants route through them; "
    "U6 evaluate_expression substitutes, for every quantity atom, its convert_to_si value; U7 the helpers are stateless (no memoisation, "
    "no global state, no stores into arguments). Exactness of float division and "
    "SymPy's subs are not decided.")
ASSUMPTIONS = ["scale factors are SI scale factors (C05)", "SymPy's get_dimensional_dependencies returns base-dimension exponents"]
TRUSTED = ["SymPy unit sources", "python ast"]

CONV = "symplyphysics.core.convert"
DIMS = "symplyphysics.core.dimensions.dimensions"
CEL = "symplyphysics.core.symbols.celsius"
AED = DIMS + ".assert_equivalent_dimension"
QTY = "symplyphysics.core.symbols.quantities.Quantity"


def check(run: Run) -> None:
    for rid, text in [
        ("U1", "convert_to returns value.scale_factor / target_unit.scale_factor (monomial value^1 * target^-1, coefficient 1)"),
        ("U2", "assert_equivalent_dimension(value, ..., target_unit.dimension) dominates the return of convert_to"),
        ("U3", "convert_to_si targets dimension_to_si_unit(value.dimension); convert_to_float targets 1"),
        ("U4", "SI base table total over the seven base dimensions, each mapped to a unit of that dimension with SI value 1; product of table[dim]**n"),
        ("U5", "Celsius: to_kelvin = x + c, from_kelvin = x - c, same c = 273.15; quantity variants route through them"),
        ("U6", "evaluate_expression substitutes convert_to_si(q) for every quantity atom q"),
    ]:
        run.rule(rid, text)
    w = World(run.src)
    f = Fn(w, CONV, "convert_to", inline=True)
    run.require(f.params[:2] == ["value", "target_unit"], "convert_to parameters changed")
    rets = f.cfg.returns()
    run.require(bool(rets), "convert_to has no return")

    def atom(e):
        d = dotted(e)
        if d in ("value.scale_factor", "target_unit.scale_factor"):
            return d
        return None

    for r in rets:
        run.ob("U1", f"return:{norm(r.ast, 60)}")
        # inline single-definition locals
        expr = r.ast.value
        expr = _inline(f, r, expr)
        m = monomial(expr, atom) if expr is not None else None
        want = {"value.scale_factor": Fraction(1), "target_unit.scale_factor": Fraction(-1)}
        if m is None or {k: v for k, v in m.items() if k != "#"} != want or m.get("#", Fraction(1)) != 1:
            run.violate("U1", f"{f.qual}:ratio", f.mod, r.ast,
                        f"convert_to returns `{norm(r.ast.value, 70)}`; the number n with n*unit = quantity is value.scale_factor / target_unit.scale_factor",
                        monomial={k: str(v) for k, v in (m or {}).items()})
        run.ob("U2", f"return:{norm(r.ast, 60)}")
        good = []
        for n, c in f.calls(AED):
            if len(c.args) >= 4:
                s0, s3 = f.slice(n, c.args[0]), f.slice(n, c.args[3])
                if "value" in s0.params and "target_unit" not in s0.params and "target_unit" in s3.params and "value" not in s3.params and "dimension" in s3.attr_names:
                    good.append(n)
        if not f.cfg.dominated_by(r, lambda y: y in good):
            run.violate("U2", f"{f.qual}:gate", f.mod, r.ast, "convert_to can return without assert_equivalent_dimension(value, ..., target_unit.dimension): conversion between inequivalent dimensions is answered")
    # the two re-wrappers must not change the dimension/value: Quantity(x) only
    for n, c in f.calls(QTY):
        run.ob("U1", f"wrap:{norm(c, 40)}")
        if len(c.args) != 1 or c.keywords or not isinstance(c.args[0], ast.Name):
            run.violate("U1", f"{f.qual}:wrap:{norm(c, 50)}", f.mod, c, f"operand re-wrapped as `{norm(c, 50)}` (must be Quantity(<operand>) unchanged)")
        else:
            tg = n.ast.targets[0].id if isinstance(n.ast, ast.Assign) and isinstance(n.ast.targets[0], ast.Name) else None
            if tg != c.args[0].id:
                run.violate("U1", f"{f.qual}:wrap-cross:{norm(n.ast, 50)}", f.mod, c, f"`{norm(n.ast, 50)}` replaces one operand by the other")
    run.sample({"function": f.qual, "returns": [norm(r.ast, 80) for r in rets]})

    # ---- U3
    g = Fn(w, CONV, "convert_to_si", inline=True)
    for r in g.cfg.returns():
        run.ob("U3", "convert_to_si")
        v = r.ast.value
        ok = isinstance(v, ast.Call) and g.callee(r, v) == CONV + ".convert_to" and len(v.args) == 2
        if ok:
            s0, s1 = g.slice(r, v.args[0]), g.slice(r, v.args[1])
            tgt_calls = [c for c in s1.call_nodes if g.callee(node_of(g.cfg, c) or r, c) == DIMS + ".dimension_to_si_unit"]
            ok = s0.params == {"value"} and len(tgt_calls) == 1 and len(tgt_calls[0].args) == 1 and dotted(tgt_calls[0].args[0]) == "value.dimension" \
                and not any(isinstance(x, ast.BinOp) for e in s1.exprs for x in ast.walk(e))
        if not ok:
            run.violate("U3", f"{g.qual}:target", g.mod, r.ast, "convert_to_si does not return convert_to(value, dimension_to_si_unit(value.dimension))")
    g2 = Fn(w, CONV, "convert_to_float", inline=True)
    for r in g2.cfg.returns():
        run.ob("U3", "convert_to_float")
        v = r.ast.value
        inner = v.args[0] if isinstance(v, ast.Call) and dotted(v.func) == "float" and len(v.args) == 1 else None
        if not (isinstance(inner, ast.Call) and g2.callee(r, inner) == CONV + ".convert_to" and len(inner.args) == 2 and dotted(inner.args[0]) == "value"
                and (dotted(inner.args[1]) == "S.One" or (isinstance(inner.args[1], ast.Constant) and inner.args[1].value == 1))):
            run.violate("U3", f"{g2.qual}:target", g2.mod, r.ast, "convert_to_float does not return float(convert_to(value, 1))")

    # ---- U4
    dm = run.src.need(DIMS)
    table = None
    for s in dm.tree.body:
        if isinstance(s, ast.Assign) and len(s.targets) == 1 and isinstance(s.targets[0], ast.Name) and s.targets[0].id == "_si_conversions":
            table = s
    run.require(table is not None and isinstance(table.value, ast.Dict), "_si_conversions dict literal not found")
    dims, units = dimension_table(), unit_table()
    seen = {}
    for k, v in zip(table.value.keys, table.value.values):
        kd, vd = dotted(k) or "", dotted(v) or ""
        run.ob("U4", f"entry:{kd}")
        if not (kd.startswith("units.") and vd.startswith("units.")):
            raise AnalysisError(f"C07/U4: table entry {norm(k)}: {norm(v)} not understood")
        kdim = dims.get(kd.split(".", 1)[1])
        u = units.unit(vd.split(".", 1)[1])
        if kdim is None or u is None or u[1] is None:
            raise AnalysisError(f"C07/U4: cannot resolve {kd} / {vd} in SymPy's tables")
        seen[kd.split(".", 1)[1]] = kdim
        scale, udim = u
        if udim != kdim:
            run.violate("U4", f"{DIMS}:_si_conversions:{kd}:dimension", dm, v, f"{kd} is mapped to {vd}, whose dimension is {udim}, not {kdim}")
        elif complex(si_value(scale, udim)) != 1:
            run.violate("U4", f"{DIMS}:_si_conversions:{kd}:scale", dm, v, f"{kd} is mapped to {vd}, whose SI value is {si_value(scale, udim)}, not 1 (not the SI base unit)")
    for b in BASE:
        run.ob("U4", f"total:{b}")
        if Dim({b: 1}) not in seen.values():
            run.violate("U4", f"{DIMS}:_si_conversions:missing:{b}", dm, table, f"the SI base dimension `{b}` has no entry: its factor silently becomes 1")
    # the product itself, by evaluation: dimension_to_si_unit(d) for a dimension with all seven bases at distinct (also fractional, negative) exponents
    run.ob("U4", "product")
    from fractions import Fraction as _Fr
    from ..pyreader import PyReader, Raised
    from ..alg import var as _var, num as _num, op as _op
    from ..exprtree import same_value as _same

    class _SIReader(PyReader):

        def global_value(self, n):
            d_ = dotted(n)
            if d_ and d_.startswith("units."):
                return _var(d_)
            if d_ == "dimsys_SI":
                return ("dimsys", )
            return super().global_value(n)

        def hook_method(self, base, attr, args, kwargs, n):
            if base == ("dimsys", ) and attr == "get_dimensional_dependencies" and len(args) == 1 and args[0] == "DIMENSION":
                return dict(self.deps)
            return NotImplemented

    R_ = _SIReader(dm.tree, "dimensions.py")
    exps = [_Fr(2), _Fr(1), _Fr(-3), _Fr(1, 2), _Fr(-1), _Fr(3), _Fr(-2, 3)]
    R_.deps = {_var(f"units.{b}"): _num(e) for b, e in zip(BASE, exps)}
    try:
        table_v = R_.global_value(ast.Name(id="_si_conversions", ctx=ast.Load()))
        got = R_.call("dimension_to_si_unit", ["DIMENSION"])
    except Raised as r_:
        table_v, got = None, r_
    want = _num(1)
    if isinstance(table_v, dict):
        for k_, e_ in R_.deps.items():
            want = _op("mul", want, _op("pow", table_v.get(k_, _num(1)), e_))
    from ..alg import T as _T
    if not (isinstance(table_v, dict) and isinstance(got, (_T, int)) and _same(got, want)):
        run.violate("U4", f"{DIMS}:dimension_to_si_unit:product", dm, dm.tree,
                    f"dimension_to_si_unit is not the product over all dimensional dependencies of _si_conversions[dim] ** exponent "
                    f"(for exponents {dict(zip(BASE, map(str, exps)))} it gives {got!r})")

    # ---- U5
    cm = run.src.need(CEL)
    cls = next((s for s in cm.tree.body if isinstance(s, ast.ClassDef) and s.name == "Celsius"), None)
    run.require(cls is not None, "class Celsius not found")
    off = next((s for s in cls.body if isinstance(s, (ast.Assign, ast.AnnAssign)) and any(isinstance(t, ast.Name) and t.id == "CELSIUS_TO_KELVIN_OFFSET" for t in (s.targets if isinstance(s, ast.Assign) else [s.target]))), None)
    run.require(off is not None, "Celsius.CELSIUS_TO_KELVIN_OFFSET not found")
    run.ob("U5", "offset")
    try:
        val = ast.literal_eval(off.value)
    except (ValueError, SyntaxError):
        val = None
    if not (isinstance(val, (int, float)) and abs(val - 273.15) < 1e-12):
        run.violate("U5", f"{CEL}:offset", cm, off, f"the Celsius/kelvin offset is {norm(off.value)}, not 273.15")
    signs = {}
    for name, expected in (("to_kelvin", +1), ("from_kelvin", -1)):
        fn = Fn(w, CEL, name)
        for r in fn.cfg.returns():
            run.ob("U5", name)
            v = r.ast.value
            if name == "from_kelvin" and isinstance(v, ast.Call) and dotted(v.func) == "Celsius" and len(v.args) == 1:
                v = v.args[0]
            aff = _affine(v, fn.params[0], fn, r)
            if aff is None or aff != expected:
                run.violate("U5", f"{fn.qual}:affine", fn.mod, r.ast, f"{name} returns `{norm(r.ast.value, 60)}`; expected x {'+' if expected > 0 else '-'} Celsius.CELSIUS_TO_KELVIN_OFFSET")
    tq = Fn(w, CEL, "to_kelvin_quantity")
    for r in tq.cfg.returns():
        run.ob("U5", "to_kelvin_quantity")
        sl = tq.slice(r, r.ast.value)
        calls = {tq.callee(node_of(tq.cfg, c) or r, c) for c in sl.call_nodes}
        binops = [x for e in sl.exprs for x in ast.walk(e) if isinstance(x, ast.BinOp)]
        qcalls = [c for c in sl.call_nodes if tq.callee(node_of(tq.cfg, c) or r, c) == QTY]
        explicit_dim = False
        from ..dim import Interp, guard_dimension
        for qc in qcalls:
            d = kw(qc, "dimension")
            if d is not None and guard_dimension(Interp(w, w.env(CEL)).ev(d)) == dimension_table()["temperature"]:
                explicit_dim = True
        form_a = len(binops) == 1 and isinstance(binops[0].op, ast.Mult) and "units.kelvin" in sl.attrs  # to_kelvin(value) * units.kelvin
        form_b = not binops and explicit_dim  # Quantity(to_kelvin(value), dimension=units.temperature)
        if CEL + ".to_kelvin" not in calls or not qcalls or not (form_a or form_b):
            run.violate("U5", f"{tq.qual}:route", tq.mod, r.ast, "to_kelvin_quantity does not wrap to_kelvin(value), unchanged, as a kelvin quantity")
        run.ob("U5", "to_kelvin_quantity:zero-keeps-dimension")
        if not explicit_dim:
            run.violate("U5", f"{tq.qual}:zero-dimension", tq.mod, r.ast,
                        "to_kelvin_quantity builds its Quantity without an explicit temperature dimension: at absolute zero `0 * kelvin` is the plain number 0, "
                        "the quantity becomes dimensionless and from_kelvin_quantity(to_kelvin_quantity(Celsius(-273.15))) fails - the helpers are not mutual inverses there")
    fq = Fn(w, CEL, "from_kelvin_quantity")
    for r in fq.cfg.returns():
        run.ob("U5", "from_kelvin_quantity")
        sl = fq.slice(r, r.ast.value)
        calls = {fq.callee(node_of(fq.cfg, c) or r, c) for c in sl.call_nodes}
        offsets = any(isinstance(x, ast.BinOp) and isinstance(x.op, (ast.Add, ast.Sub)) for e in sl.exprs for x in ast.walk(e)) or \
            any(c_ not in (0, 1) for c_ in numeric_consts(sl))
        if CEL + ".from_kelvin" not in calls or "units.kelvin" not in sl.attrs or offsets or "value" not in sl.params:
            run.violate("U5", f"{fq.qual}:route", fq.mod, r.ast, "from_kelvin_quantity does not route the value in kelvin (the quantity divided by the unit kelvin, no offset of its own) "
                                                                 "through from_kelvin")
        # the argument is a temperature: the library's own dimension check (directly, or through the library's convert_to) dominates the return
        run.ob("U5", "from_kelvin_quantity:dimension-checked")
        checks = [n for n in fq.cfg.stmt_nodes() for c in node_calls(n)
                  if (fq.callee(n, c) or "").split(".")[-1] in ("assert_equivalent_dimension", ) and c.args and dotted(c.args[0]) == "value"
                  or (fq.callee(n, c) == CONV + ".convert_to" and c.args and dotted(c.args[0]) == "value")]
        if not any(fq.cfg.dominated_by(r, lambda y, k=k: y is k) or k is r for k in checks):
            run.violate("U5", f"{fq.qual}:dimension", fq.mod, r.ast,
                        "from_kelvin_quantity converts its argument without checking that it is a temperature (SymPy's convert_to plus subs(kelvin, 1) strips the unit whatever "
                        "its exponent): 300 K**2 or 300/K come back as 26.85 degrees Celsius")

    _u7_purity(run)
    # ---- U6
    ev = Fn(w, CONV, "evaluate_expression")
    run.ob("U6", "evaluate_expression")
    oku = False
    for lp in [n for n in ev.cfg.stmt_nodes() if n.kind == "for"]:
        it = lp.ast.iter
        if isinstance(it, ast.Call) and isinstance(it.func, ast.Attribute) and it.func.attr == "atoms" and dotted(it.func.value) == "expr" and isinstance(lp.ast.target, ast.Name):
            q = lp.ast.target.id
            for n, c in [(n, c) for n in ev.cfg.stmt_nodes() for c in node_calls(n) if isinstance(c.func, ast.Attribute) and c.func.attr == "subs" and dotted(c.func.value) == "expr"]:
                if len(c.args) == 2 and dotted(c.args[0]) == q:
                    s1 = ev.slice(n, c.args[1])
                    si = [cc for cc in s1.call_nodes if ev.callee(node_of(ev.cfg, cc) or n, cc) == CONV + ".convert_to_si"]
                    st = stmt_of(ev.fn, c)
                    if si and [dotted(a) for a in si[0].args] == [q] and conditions_for(ev.fn, st, stop=lp.ast) == [] and not any(isinstance(x, ast.BinOp) for e in s1.exprs for x in ast.walk(e)):
                        oku = True
    if not oku:
        run.violate("U6", f"{ev.qual}:substitution", ev.mod, ev.fn, "evaluate_expression does not replace every quantity atom q by convert_to_si(q) (possibly evalf'd)")
    # every kind of leaf the quantity collector gives a scale factor to is evaluated: quantities AND unit prefixes
    run.ob("U6", "evaluate_expression:leaf-kinds")
    cq = run.src.need("symplyphysics.core.dimensions.collect_quantity")
    leaf_kinds = set()
    for st in cq.tree.body:
        if isinstance(st, (ast.Assign, ast.AnnAssign)) and dotted(st.targets[0] if isinstance(st, ast.Assign) else st.target) == "_cases" and isinstance(st.value, ast.Dict):
            for k, v in zip(st.value.keys, st.value.values):
                h = next((f_ for f_ in cq.tree.body if isinstance(f_, ast.FunctionDef) and f_.name == dotted(v)), None)
                if h is not None and not any(isinstance(x, ast.Call) and dotted(x.func) == "collect_quantity_factor_and_dimension" for x in ast.walk(h)) \
                        and any(isinstance(x, ast.Attribute) and x.attr == "scale_factor" for x in ast.walk(h)):
                    leaf_kinds.add((dotted(k) or "").split(".")[-1])
    run.require(leaf_kinds >= {"SymQuantity", "Prefix"}, f"leaf kinds of the quantity collector not understood: {sorted(leaf_kinds)}")
    handled = {(dotted(a) or "").split(".")[-1] for x in ast.walk(ev.fn) if isinstance(x, ast.Call) and isinstance(x.func, ast.Attribute) and x.func.attr == "atoms" for a in x.args}
    missing = sorted(leaf_kinds - handled)
    if missing:
        run.violate("U6", f"{ev.qual}:leaf-kinds:{','.join(missing)}", ev.mod, ev.fn,
                    f"evaluate_expression leaves {missing} atoms in the expression: the quantity collector gives them a scale factor (5 * units.kilo * units.meter is 5000 m), "
                    f"so the evaluated expression is not a number and does not have the value of the input")


def _u7_purity(run: Run) -> None:
    """Conversion helpers are pure functions of their arguments: no store into an argument's or a global's attributes/items, no
    global/nonlocal, no memoising decorator. A cached result goes stale when the (mutable) argument changes: to_kelvin_quantity
    and to_kelvin then stop agreeing."""
    run.rule("U7", "conversion helpers are stateless: no stores into arguments/globals, no memoisation")
    for modname in (CEL, CONV):
        m = run.src.need(modname)
        for fn in [s for s in m.tree.body if isinstance(s, ast.FunctionDef)]:
            run.ob("U7", f"{modname}:{fn.name}")
            params = {a.arg for a in fn.args.posonlyargs + fn.args.args + fn.args.kwonlyargs}
            local = {x.id for x in ast.walk(fn) if isinstance(x, ast.Name) and isinstance(x.ctx, ast.Store)}
            for d in fn.decorator_list:
                dn = (dotted(d.func) if isinstance(d, ast.Call) else dotted(d)) or ""
                if dn.split(".")[-1] in ("cache", "lru_cache", "cacheit", "cached_property", "memoize"):
                    run.violate("U7", f"{modname}:{fn.name}:memoised", m, fn, f"{fn.name} is memoised ({dn}): results for mutable arguments (Celsius.value) go stale")
            for x in ast.walk(fn):
                if isinstance(x, (ast.Global, ast.Nonlocal)):
                    run.violate("U7", f"{modname}:{fn.name}:global", m, x, f"{fn.name} keeps state in a global")
                tg = []
                if isinstance(x, ast.Assign):
                    tg = x.targets
                elif isinstance(x, (ast.AugAssign, ast.AnnAssign)):
                    tg = [x.target]
                for t in tg:
                    if isinstance(t, (ast.Attribute, ast.Subscript)):
                        root = t
                        while isinstance(root, (ast.Attribute, ast.Subscript)):
                            root = root.value
                        if isinstance(root, ast.Name) and (root.id in params or root.id not in local):
                            run.violate("U7", f"{modname}:{fn.name}:store:{norm(t, 50)}", m, x,
                                        f"{fn.name} stores into `{norm(t, 50)}` (state attached to its argument or to a global): a later call can return a value "
                                        f"computed from an earlier state of the argument")
    cm = run.src.need(CEL)
    cls = next((s for s in cm.tree.body if isinstance(s, ast.ClassDef) and s.name == "Celsius"), None)
    if cls is not None:
        for meth in [s for s in cls.body if isinstance(s, ast.FunctionDef)]:
            for d in meth.decorator_list:
                if (dotted(d) or "").split(".")[-1] in ("cached_property", "cache", "lru_cache"):
                    run.violate("U7", f"{CEL}:Celsius.{meth.name}:memoised", cm, meth, f"Celsius.{meth.name} is memoised although Celsius.value is mutable")


def _inline(f: Fn, n, e: ast.AST):
    """replace a Name by its single reaching definition's value (one level), else keep"""
    if isinstance(e, ast.Name):
        ds = f.cfg.reaching().get(n, {}).get(e.id)
        if ds and len(ds) == 1:
            d = next(iter(ds))
            if d.kind == "stmt" and isinstance(d.ast, ast.Assign) and len(d.ast.targets) == 1 and isinstance(d.ast.targets[0], ast.Name):
                return d.ast.value
    return e


def _resolve_local(fn, node, e: ast.AST, depth: int = 3) -> ast.AST:
    """a local name bound exactly once (as seen from `node`) stands for its defining expression"""
    while depth > 0 and isinstance(e, ast.Name):
        ds = fn.cfg.reaching().get(node, {}).get(e.id)
        if not ds or len(ds) != 1:
            break
        dn = next(iter(ds))
        if not (dn.kind == "stmt" and isinstance(dn.ast, (ast.Assign, ast.AnnAssign)) and getattr(dn.ast, "value", None) is not None):
            break
        tg = dn.ast.targets if isinstance(dn.ast, ast.Assign) else [dn.ast.target]
        if not (len(tg) == 1 and isinstance(tg[0], ast.Name)):
            break
        e, node = dn.ast.value, dn
        depth -= 1
    return e


def _affine(v: ast.AST, param: str, fn=None, node=None):
    """+1 for <param-derived> + OFFSET, -1 for <param-derived> - OFFSET, None otherwise (locals bound once are looked through)"""
    if fn is not None:
        v = _resolve_local(fn, node, v)
    if isinstance(v, ast.BinOp) and isinstance(v.op, (ast.Add, ast.Sub)):
        l, r = v.left, v.right
        if fn is not None:
            l, r = _resolve_local(fn, node, l), _resolve_local(fn, node, r)
        is_off = lambda x: dotted(x) in ("Celsius.CELSIUS_TO_KELVIN_OFFSET", )
        is_par = lambda x: dotted(x) in (param, f"{param}.value")
        if is_par(l) and is_off(r):
            return +1 if isinstance(v.op, ast.Add) else -1
        if is_off(l) and is_par(r) and isinstance(v.op, ast.Add):
            return +1
    return None
