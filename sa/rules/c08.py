"""C08 - the approximate-equality oracle: core/approx.py evaluated abstractly; verdicts are symbolic and every truth assignment is explored (E3 by evaluation)."""
from __future__ import annotations

import ast
import itertools
from dataclasses import dataclass
from fractions import Fraction

from ..core import Run, dotted, norm, AnalysisError
from ..alg import T, num, var, op, app
from ..pyreader import Raised
from ..gate import GateReader, Dim, Obj, quantity, qvector
from ..exprtree import same_value

EXPLANATION = (
    "symplyphysics/core/approx.py is EVALUATED (sa/pyreader.py) with symbolic numbers, quantities and tolerances. A comparison "
    "`x == pytest.approx(y, rel=, abs=)` evaluates to a symbolic verdict (x, y, rel, abs); wherever the code branches on a verdict, both "
    "truth values are explored, so the result of each function is a truth table over its verdicts - whatever the shape of the code "
    "(conjunction, guard clauses, all(...), helper functions, **kwargs forwarding). Decided: A1 approx_equal_quantities hands (lhs, rhs) to "
    "assert_equivalent_dimension on every run; A2 its result is true exactly when the re-parts and the im-parts of both operands' SI "
    "values (convert_to_si, never the gram-based scale factor) compare equal; A3 the default relative tolerance is the module constant "
    "0.001, re-bound nowhere; A4 the verdict on numbers is lhs == approx(rhs, rel, abs) with rel = caller's or 0.001 and abs = caller's or "
    "|lhs * rel|, and an infinite operand is compared exactly; A5 tolerances and dimension reach the number comparison unchanged from "
    "assert_equal_vectors / assert_equal / approx_equal_quantities; A6 assert_equal raises AssertionError exactly when that verdict is "
    "false, wraps a bare rhs with the caller's dimension and a bare lhs with none; A7 assert_equal_vectors asserts every component pair "
    "and refuses vectors of different lengths.")
ASSUMPTIONS = [
    "pytest.approx(expected, rel=, abs=) accepts |actual-expected| <= max(rel*|expected|, abs) (its documented contract)",
    "sympy re/im return real and imaginary part; convert_to_si is the SI value (C07)",
]
TRUSTED = ["pytest.approx", "sympy.re / sympy.im", "python ast", "sa/pyreader.py abstract evaluator"]

M = "symplyphysics.core.approx"
DEFAULT_REL = num(Fraction(1, 1000))


class NeedAssumption(Exception):

    def __init__(self, key):
        super().__init__(str(key))
        self.key = key


@dataclass(frozen=True)
class Verdict:
    kind: str  # tol | exact
    lhs: object
    rhs: object
    rel: object = None
    abs_: object = None

    @property
    def key(self):
        return (self.kind, repr(self.lhs), repr(self.rhs), repr(self.rel), repr(self.abs_))


INF = ("inf", )


class ApproxReader(GateReader):

    def __init__(self, module, assume: dict, infinite=()):
        super().__init__(module, "approx.py", depth_limit=10)
        self.assume = assume
        self.infinite = set(infinite)
        self.verdicts: dict = {}
        self.wrapped: list = []

    def truthy(self, v, n):
        if isinstance(v, Verdict):
            self.verdicts[v.key] = v
            if v.key not in self.assume:
                raise NeedAssumption(v.key)
            return self.assume[v.key]
        if isinstance(v, T) and v.op == "num":
            return v.val != 0
        if isinstance(v, T):
            # the truth value of a number nobody knows: both are explored
            return self.truthy(Verdict("nonzero", v, None), n)
        return super().truthy(v, n)

    def global_value(self, n):
        d = dotted(n)
        if d in ("inf", "math.inf", "oo", "S.Infinity"):
            return INF
        return super().global_value(n)

    def hook_unary(self, o, v, n):
        if v == INF and isinstance(o, (ast.USub, ast.UAdd)):
            return INF
        return NotImplemented

    def _is_inf(self, t) -> bool:
        while isinstance(t, T) and t.op == "app" and t.val == "Abs":
            t = t.args[0]
        return isinstance(t, T) and t.op == "var" and t.val in self.infinite

    def hook_compare(self, o, l, r, n):
        if isinstance(o, (ast.Eq, ast.NotEq)):
            res = None
            if l == INF or r == INF:
                other = r if l == INF else l
                if isinstance(other, (T, int)):
                    res = self._is_inf(other)
            elif isinstance(r, tuple) and r and r[0] == "approx" and isinstance(l, (T, int)):
                res = Verdict("tol", l, r[1], r[2], r[3])
            elif isinstance(l, tuple) and l and l[0] == "approx" and isinstance(r, (T, int)):
                res = Verdict("tol", r, l[1], l[2], l[3])
            elif isinstance(l, T) and isinstance(r, T):
                res = Verdict("exact", l, r)
            if res is not None:
                if isinstance(o, ast.NotEq):
                    if isinstance(res, bool):
                        return not res
                    self.fail(n, "negated verdict")
                return res
        if isinstance(o, (ast.In, ast.NotIn)) and isinstance(r, list) and INF in r and isinstance(l, (T, int)) and all(x == INF for x in r):
            res = self._is_inf(l)
            return res if isinstance(o, ast.In) else not res
        if isinstance(o, (ast.Lt, ast.LtE, ast.Gt, ast.GtE)):
            for a_, b_ in ((l, r), (r, l)):
                if isinstance(b_, tuple) and b_ and b_[0] == "approx" and isinstance(a_, (T, int)):
                    return Verdict(type(o).__name__, a_, b_[1], b_[2], b_[3])  # an ordering against approx: not the equality the oracle is about
            if l == INF or r == INF:
                other = r if l == INF else l
                if isinstance(other, (T, int)):
                    inf_ = self._is_inf(other)
                    # |x| >= inf, |x| < inf ... for a finite / infinite x
                    if isinstance(o, ast.GtE):
                        return inf_ if r == INF else True
                    if isinstance(o, ast.Lt):
                        return (not inf_) if r == INF else False
                    if isinstance(o, ast.LtE):
                        return True if r == INF else inf_
                    if isinstance(o, ast.Gt):
                        return False if r == INF else (not inf_)
            if isinstance(l, (T, int)) and isinstance(r, (T, int)) and not isinstance(l, bool) and not isinstance(r, bool) and (isinstance(l, T) or isinstance(r, T)):
                # an ordering of two numbers nobody knows: an opaque condition, both outcomes are explored
                return Verdict(type(o).__name__, l, r)
        return super().hook_compare(o, l, r, n)

    def hook_call(self, n, env, fns):
        f = dotted(n.func) or ""
        name = f.split(".")[-1]
        if name == "approx" and n.args and name not in self.functions:
            kw_ = {k.arg: self.ev(k.value, env, fns) for k in n.keywords if k.arg}
            for k in n.keywords:
                if k.arg is None:
                    kw_.update(self.ev(k.value, env, fns))
            return ("approx", self.ev(n.args[0], env, fns), kw_.get("rel"), kw_.get("abs"))
        if name in ("abs", "Abs", "fabs") and len(n.args) == 1:
            v = self.ev(n.args[0], env, fns)
            if isinstance(v, (T, int)) and not isinstance(v, bool):
                return app("Abs", v if isinstance(v, T) else num(v))
        if name in ("isinf", ) and len(n.args) == 1:
            v = self.ev(n.args[0], env, fns)
            if isinstance(v, (T, int)):
                return self._is_inf(v)
        if name in ("float", "complex", "N") and len(n.args) == 1:
            v = self.ev(n.args[0], env, fns)
            if isinstance(v, (T, int)):
                return v
            self.fail(n, f"{name}() of {type(v).__name__}")
        if name == "bool" and len(n.args) == 1:
            return self.ev(n.args[0], env, fns)
        if name in ("max", "min") and n.args and name not in self.functions:
            vals = [self.ev(a, env, fns) for a in n.args]
            kw_ = {k.arg: self.ev(k.value, env, fns) for k in n.keywords if k.arg}
            if len(vals) == 1 and isinstance(vals[0], list):
                vals = vals[0]
            if not vals and "default" in kw_:
                return kw_["default"]
            if vals and all(isinstance(v, (T, int, float, Fraction)) and not isinstance(v, bool) for v in vals) and set(kw_) <= {"default"}:
                return vals[0] if len(vals) == 1 else app(name.capitalize(), *[v if isinstance(v, T) else num(Fraction(v)) for v in vals])
        if name in ("re", "im") and len(n.args) == 1 and name not in self.functions:
            v = self.ev(n.args[0], env, fns)
            if isinstance(v, (T, int)):
                return app(name, v if isinstance(v, T) else num(v))
            self.fail(n, f"{name}() of {type(v).__name__}")
        if name == "convert_to_si" and len(n.args) == 1 and name not in self.functions:
            v = self.ev(n.args[0], env, fns)
            if isinstance(v, Obj):
                return var(f"si({v.tag})")
            self.fail(n, "convert_to_si of a non-quantity")
        if name == "Quantity" and name not in self.functions:
            args = [self.ev(a, env, fns) for a in n.args]
            kw_ = {k.arg: self.ev(k.value, env, fns) for k in n.keywords if k.arg}
            tag = f"Q{len(self.wrapped)}"
            obj = Obj("Quantity", {"scale_factor": var(f"sf({tag})"), "dimension": kw_.get("dimension") if isinstance(kw_.get("dimension"), Dim) else Dim.of(unknown=1),
                                   "display_name": tag, "name": tag}, tag)
            self.wrapped.append((obj, args, kw_))
            return obj
        return super().hook_call(n, env, fns)


def explore(module, fname, args, kwargs, infinite=()):
    """all runs of fname over the truth assignments of the verdicts it branches on: [(assumptions, outcome, reader)]"""
    out = []
    stack = [{}]
    while stack:
        assume = stack.pop()
        R = ApproxReader(module, assume, infinite)
        try:
            got = R.call(fname, [a() if callable(a) else a for a in args], {k: (v() if callable(v) else v) for k, v in kwargs.items()})
            if isinstance(got, Verdict):
                R.verdicts[got.key] = got
                if got.key not in assume:
                    raise NeedAssumption(got.key)  # a verdict handed back untested: both of its truth values are explored too
            outcome = ("returns", got)
        except Raised as r:
            outcome = ("raises", r.exc.split(".")[-1])
        except NeedAssumption as na:
            for b in (True, False):
                stack.append({**assume, na.key: b})
            continue
        if len(out) > 4096:
            raise AnalysisError("C08: too many verdict combinations")
        out.append((assume, outcome, R))
    return out


def truth(outcome, assume) -> object:
    kind, v = outcome
    if kind == "raises":
        return ("raises", v)
    if isinstance(v, Verdict):
        return assume.get(v.key, ("undetermined", v))
    return v


def qobj(tag: str, dim: Dim) -> Obj:
    return Obj("Quantity", {"scale_factor": var(f"sf({tag})"), "dimension": dim, "display_name": tag, "name": tag}, tag)


def expected_number_verdict(l, r, rel, abs_):
    rel_ = rel if rel is not None else DEFAULT_REL
    abs__ = abs_ if abs_ is not None else app("Abs", op("mul", l, rel_))
    return l, r, rel_, abs__


def verdict_matches(v: Verdict, l, r, rel, abs_) -> bool:
    el, er, erel, eabs = expected_number_verdict(l, r, rel, abs_)
    return v.kind == "tol" and same_value(v.lhs, el) and same_value(v.rhs, er) and v.rel is not None and v.abs_ is not None \
        and same_value(v.rel, erel) and same_value(v.abs_, eabs)


def check(run: Run) -> None:
    mod = run.src.need(M)
    for rid, text in [
        ("A1", "approx_equal_quantities hands (lhs, rhs) to assert_equivalent_dimension on every run"),
        ("A2", "approx_equal_quantities is true exactly when the re-parts and the im-parts of both operands' SI values compare equal"),
        ("A3", "the default relative tolerance is the module constant 0.001, re-bound nowhere"),
        ("A4", "the verdict on numbers is lhs == approx(rhs, rel, abs), rel = caller's or 0.001, abs = caller's or |lhs*rel|; an infinite operand is compared exactly"),
        ("A5", "tolerances and dimension reach the number comparison unchanged along assert_equal_vectors -> assert_equal -> approx_equal_quantities -> approx_equal_numbers"),
        ("A6", "assert_equal raises AssertionError exactly when the verdict is false; bare rhs wrapped with the caller's dimension; lhs never re-dimensioned"),
        ("A7", "assert_equal_vectors asserts every component pair and refuses vectors of different lengths"),
    ]:
        run.rule(rid, text)
    tree = mod.tree
    l, r, RL, AB = var("l"), var("r"), var("REL"), var("ABS")

    # ------------------------------------------------------------------ A3 (static part): the constant is bound once
    consts = [s for s in tree.body if isinstance(s, (ast.Assign, ast.AnnAssign))
              and any(isinstance(t, ast.Name) and t.id == "APPROX_RELATIVE_TOLERANCE" for t in (s.targets if isinstance(s, ast.Assign) else [s.target]))]
    run.require(len(consts) >= 1, "APPROX_RELATIVE_TOLERANCE not found")
    run.ob("A3", "constant-bound-once")
    for m2 in run.src.mods.values():
        for nn in ast.walk(m2.tree):
            if isinstance(nn, (ast.Assign, ast.AugAssign, ast.AnnAssign)) and nn is not consts[0]:
                tg = nn.targets if isinstance(nn, ast.Assign) else [nn.target]
                for t in tg:
                    if (isinstance(t, ast.Name) and t.id == "APPROX_RELATIVE_TOLERANCE" and m2.name == M) or (isinstance(t, ast.Attribute) and t.attr == "APPROX_RELATIVE_TOLERANCE"):
                        run.violate("A3", f"{m2.name}:rebinds:APPROX_RELATIVE_TOLERANCE", m2, nn, "the default tolerance constant is re-assigned")

    # ------------------------------------------------------------------ A3 / A4: approx_equal_numbers
    for label, rel, abs_ in (("defaults", None, None), ("relative given", RL, None), ("absolute given", None, AB), ("both given", RL, AB)):
        run.ob("A4", f"numbers:{label}")
        runs = explore(tree, "approx_equal_numbers", [l, r], {"relative_tolerance": rel, "absolute_tolerance": abs_})
        problem = None
        for assume, outcome, R in runs:
            if outcome[0] != "returns" or not isinstance(outcome[1], Verdict):
                tv = truth(outcome, assume)
                problem = f"the result is {tv!r}, not the comparison lhs == approx(rhs, rel=, abs=)" if not isinstance(outcome[1], Verdict) else problem
                if problem:
                    break
                continue
            v = outcome[1]
            if not verdict_matches(v, l, r, rel, abs_):
                el, er, erel, eabs = expected_number_verdict(l, r, rel, abs_)
                rid = "A3" if (rel is None and v.kind == "tol" and v.rel is not None and not same_value(v.rel, DEFAULT_REL) and same_value(v.lhs, l) and same_value(v.rhs, r)) else "A4"
                problem = (rid, f"approx_equal_numbers ({label}) compares {v.lhs!r} with approx({v.rhs!r}, rel={v.rel!r}, abs={v.abs_!r}); "
                                f"the property demands lhs == approx(rhs, rel={erel!r}, abs={eabs!r})" + (" - the default relative tolerance must be 0.001" if rid == "A3" else ""))
                break
        if problem:
            rid, msg = problem if isinstance(problem, tuple) else ("A4", problem)
            run.violate(rid, f"{M}:approx_equal_numbers:{label}", mod, tree, msg)
    for label, inf in (("infinite lhs", {"l"}), ("infinite rhs", {"r"}), ("both infinite", {"l", "r"})):
        run.ob("A4", f"numbers:{label}")
        runs = explore(tree, "approx_equal_numbers", [l, r], {"relative_tolerance": None, "absolute_tolerance": None}, infinite=inf)
        for assume, outcome, R in runs:
            v = outcome[1] if outcome[0] == "returns" else None
            ok = isinstance(v, Verdict) and v.kind == "exact" and {repr(v.lhs), repr(v.rhs)} == {"l", "r"}
            if not ok:
                run.violate("A4", f"{M}:approx_equal_numbers:infinite-operands", mod, tree,
                            f"approx_equal_numbers with an {label} answers {v if v is not None else outcome!r}, not the exact comparison lhs == rhs: with the default absolute "
                            f"tolerance |lhs * rel| an infinite lhs equals every rhs, while the swapped operands fail - the verdict is not symmetric")
                break

    # ------------------------------------------------------------------ A1 / A2 / A5: approx_equal_quantities
    D = Dim.of(mass=1, length=1, time=-2)
    for label, rhs_kind, rel, abs_ in (("two quantities, defaults", "quantity", None, None), ("two quantities, tolerances given", "quantity", RL, AB),
                                        ("bare rhs with dimension", "number", None, AB), ("bare rhs, relative given", "number", RL, None)):
        lq = qobj("L", D)
        rq = qobj("R", D) if rhs_kind == "quantity" else var("rhsnumber")
        runs = explore(tree, "approx_equal_quantities", [lq, rq], {"relative_tolerance": rel, "absolute_tolerance": abs_, "dimension": D if rhs_kind == "number" else None})
        run.ob("A1", label)
        run.ob("A2", label)
        run.ob("A5", f"quantities:{label}")
        reported = set()
        for assume, outcome, R in runs:
            rhs_obj = rq
            if rhs_kind == "number":
                w_ = [x for x in R.wrapped if x[1] and x[1][0] is rq or (x[1] and isinstance(x[1][0], T) and repr(x[1][0]) == "rhsnumber")]
                run.ob("A6", f"quantities:{label}:rhs-wrap")
                if not w_ or not (isinstance(w_[0][2].get("dimension"), Dim) and w_[0][2]["dimension"] == D):
                    if "wrap" not in reported:
                        reported.add("wrap")
                        run.violate("A6", f"{M}:approx_equal_quantities:Quantity(rhs)", mod, tree, "a bare rhs is not wrapped as Quantity(rhs, dimension=<the caller's dimension>)")
                    continue
                rhs_obj = w_[0][0]
            ev_ok = any(e_[0] is lq and e_[3] is rhs_obj for e_ in R.events)
            if not ev_ok and outcome[0] == "returns" and "A1" not in reported:
                reported.add("A1")
                run.violate("A1", f"{M}:approx_equal_quantities:return:{label}", mod, tree,
                            f"approx_equal_quantities ({label}) can return without having passed assert_equivalent_dimension on (lhs, rhs) "
                            f"(dimension checks made: {[(repr(e_[0]), repr(e_[3])) for e_ in R.events]})")
            if outcome[0] != "returns":
                continue
            sl, sr = var(f"si({lq.tag})"), var(f"si({rhs_obj.tag})")
            need = {}
            for part in ("re", "im"):
                pl, pr = app(part, sl), app(part, sr)
                hit = [v for v in R.verdicts.values() if verdict_matches(v, pl, pr, rel, abs_)]
                need[part] = hit[0] if hit else None
            tv = truth(outcome, assume)
            if isinstance(tv, tuple):
                tv = None
            missing = [p_ for p_, v in need.items() if v is None]
            if tv is True and missing and "A2" not in reported:
                # a positive result without the comparison of a part: which kind of defect?
                used = [v for v in R.verdicts.values()]
                scale = any("sf(" in repr(v.lhs) or "sf(" in repr(v.rhs) for v in used)
                # the operands of every missing part are compared, only not under the caller's tolerances: a forwarding defect (A5); anything else is A2
                tol = all(any(v.kind == "tol" and same_value(v.lhs, app(p_, sl)) and same_value(v.rhs, app(p_, sr)) for v in used) for p_ in missing)
                rid = "A5" if (tol and not scale) else "A2"
                reported.add("A2")
                run.violate(rid, f"{M}:approx_equal_quantities:{label}:{'/'.join(missing)}", mod, tree,
                            f"approx_equal_quantities ({label}) answers True without the comparison of the {'/'.join(missing)} part(s) of the SI values of lhs and rhs with the "
                            f"caller's tolerances (comparisons made: {[str(v) for v in used][:4]})"
                            + ("; a raw .scale_factor is gram-based for every dimension that contains mass, so an absolute tolerance given in SI units would be applied in other units" if scale else "")
                            + ("; the tolerances do not reach approx_equal_numbers unchanged" if rid == "A5" else ""))
            elif not missing:
                want = all(assume.get(v.key, True) for v in need.values())
                determined = all(v.key in assume for v in need.values()) or tv is False
                if tv is not None and determined and tv != want and "A2t" not in reported:
                    reported.add("A2t")
                    run.violate("A2", f"{M}:approx_equal_quantities:{label}:truth", mod, tree,
                                f"approx_equal_quantities ({label}) answers {tv} when the re comparison is {assume.get(need['re'].key)} and the im comparison is {assume.get(need['im'].key)}: "
                                f"the result must be their conjunction")

    # ------------------------------------------------------------------ A6: assert_equal
    TOLS = (("both tolerances given", RL, AB), ("defaults", None, None), ("relative given", RL, None), ("absolute given", None, AB))
    for (label, lk, rk), (tlabel, rel, abs_) in itertools.product((("quantities", "q", "q"), ("bare rhs", "q", "n"), ("bare lhs", "n", "q"), ("both bare", "n", "n")), TOLS):
        label = f"{label}, {tlabel}"
        lq = qobj("L", D) if lk == "q" else var("lhsnumber")
        rq = qobj("R", D) if rk == "q" else var("rhsnumber")
        runs = explore(tree, "assert_equal", [lq, rq], {"relative_tolerance": rel, "absolute_tolerance": abs_, "dimension": D})
        run.ob("A6", f"assert_equal:{label}")
        run.ob("A5", f"assert_equal:{label}")
        reported = set()
        for assume, outcome, R in runs:
            lhs_obj, rhs_obj = lq, rq
            for who, kind_, orig in (("lhs", lk, lq), ("rhs", rk, rq)):
                if kind_ == "n":
                    w_ = [x for x in R.wrapped if x[1] and isinstance(x[1][0], T) and repr(x[1][0]) == repr(orig)]
                    if not w_:
                        if who not in reported:
                            reported.add(who)
                            run.violate("A6", f"{M}:assert_equal:Quantity({who})", mod, tree, f"a bare {who} is not wrapped in a Quantity")
                        continue
                    d_ = w_[0][2].get("dimension")
                    if who == "lhs" and isinstance(d_, Dim) and "lhsdim" not in reported:
                        reported.add("lhsdim")
                        run.violate("A6", f"{M}:assert_equal:Quantity(lhs,dimension)", mod, tree, "lhs is wrapped with a caller-supplied dimension (its own dimension must be kept)")
                    if who == "rhs" and not (isinstance(d_, Dim) and d_ == D) and "rhsdim" not in reported:
                        reported.add("rhsdim")
                        run.violate("A6", f"{M}:assert_equal:Quantity(rhs)", mod, tree, "a bare rhs is wrapped without the caller's `dimension`")
                    if who == "lhs":
                        lhs_obj = w_[0][0]
                    else:
                        rhs_obj = w_[0][0]
                elif any(x[1] and x[1][0] is orig for x in R.wrapped) and who == "lhs" and "rewrap" not in reported:
                    reported.add("rewrap")
                    run.violate("A6", f"{M}:assert_equal:Quantity(lhs,dimension)", mod, tree, "a quantity lhs is re-wrapped (its own dimension must be kept)")
            if not (isinstance(lhs_obj, Obj) and isinstance(rhs_obj, Obj)):
                continue
            sl, sr = var(f"si({lhs_obj.tag})"), var(f"si({rhs_obj.tag})")
            need = [next((v for v in R.verdicts.values() if verdict_matches(v, app(p_, sl), app(p_, sr), rel, abs_)), None) for p_ in ("re", "im")]
            if outcome[0] == "returns":
                # the assertion passed: every run that passes must have seen both comparisons, with the caller's tolerances, true
                if any(v is None for v in need):
                    if "pass" not in reported:
                        reported.add("pass")
                        used = list(R.verdicts.values())
                        tol_only = all(any(v.kind == "tol" and same_value(v.lhs, app(p_, sl)) and same_value(v.rhs, app(p_, sr)) for v in used) for p_, nv in zip(("re", "im"), need) if nv is None)
                        run.violate("A5" if tol_only and used else "A6", f"{M}:assert_equal:{label}:passes", mod, tree,
                                    f"assert_equal ({label}) passes without both comparisons of the SI values of lhs and rhs under the caller's tolerances "
                                    f"(comparisons made: {[str(v) for v in used][:4]})")
                elif not all(assume.get(v.key) is True for v in need) and "passfalse" not in reported:
                    reported.add("passfalse")
                    run.violate("A6", f"{M}:assert_equal:{label}:passes-false", mod, tree, f"assert_equal ({label}) passes although a comparison is false")
            elif outcome == ("raises", "AssertionError"):
                if all(v is not None and assume.get(v.key) is True for v in need) and all(assume.get(k) is True for k in assume) and "failtrue" not in reported:
                    reported.add("failtrue")
                    run.violate("A6", f"{M}:assert_equal:{label}:fails-true", mod, tree, f"assert_equal ({label}) raises AssertionError although every comparison holds")

    # ------------------------------------------------------------------ A7: assert_equal_vectors
    def vec(tag, n_):
        v = Obj("QuantityVector", {"dimension": D, "display_name": tag}, tag)
        v.attrs["components"] = [qobj(f"{tag}{i}", D) for i in range(n_)]
        return v
    for tlabel, rel, abs_ in TOLS:
        run.ob("A7", f"pairs, {tlabel}")
        lv_, rv_ = vec("LV", 2), vec("RV", 2)
        runs = explore(tree, "assert_equal_vectors", [lv_, rv_], {"relative_tolerance": rel, "absolute_tolerance": abs_, "dimension": D})
        passing = [(a_, o_, R_) for a_, o_, R_ in runs if o_[0] == "returns"]
        ok7 = bool(passing)
        made = []
        for assume, outcome, R in passing:
            for i in range(2):
                sl, sr = var(f"si(LV{i})"), var(f"si(RV{i})")
                for p_ in ("re", "im"):
                    v = next((v for v in R.verdicts.values() if verdict_matches(v, app(p_, sl), app(p_, sr), rel, abs_)), None)
                    if v is None or assume.get(v.key) is not True:
                        ok7 = False
                        made = made or [str(v_) for v_ in R.verdicts.values()][:4]
        if not ok7:
            tol_only = bool(made) and tlabel != "both tolerances given"
            run.violate("A5" if tol_only else "A7", f"{M}:assert_equal_vectors:loop" + (f":{tlabel}" if tol_only else ""), mod, tree,
                        f"assert_equal_vectors ({tlabel}) can pass without every (lhs component, rhs component) pair having compared equal under the caller's tolerances"
                        + (f" (comparisons made: {made})" if made else ""))
            break
    run.ob("A5", "vectors:dimension")
    rv_bare = Obj("QuantityVector", {"dimension": D, "display_name": "RB", "components": [var("rb0"), var("rb1")]}, "RB")
    runs = explore(tree, "assert_equal_vectors", [vec("LV", 2), rv_bare], {"relative_tolerance": RL, "absolute_tolerance": AB, "dimension": D})
    for assume, outcome, R in runs:
        if outcome[0] != "returns":
            continue
        wr = [x for x in R.wrapped if x[1] and isinstance(x[1][0], T) and repr(x[1][0]) in ("rb0", "rb1")]
        if len(wr) != 2 or not all(isinstance(x[2].get("dimension"), Dim) and x[2]["dimension"] == D for x in wr):
            run.violate("A5", f"{M}:assert_equal_vectors:dimension", mod, tree,
                        "assert_equal_vectors does not hand the caller's `dimension` on to assert_equal: bare right-hand components are wrapped without it")
            break
    run.ob("A7", "zip-strict")
    runs = explore(tree, "assert_equal_vectors", [vec("LV", 2), vec("RV", 3)], {"relative_tolerance": RL, "absolute_tolerance": AB, "dimension": D})
    if any(o_[0] == "returns" for a_, o_, R_ in runs):
        run.violate("A7", f"{M}:assert_equal_vectors:lengths", mod, tree, "assert_equal_vectors passes for vectors of different lengths (the surplus components are never compared)")
    runs = explore(tree, "assert_equal_vectors", [vec("LV", 3), vec("RV", 2)], {"relative_tolerance": RL, "absolute_tolerance": AB, "dimension": D})
    if any(o_[0] == "returns" for a_, o_, R_ in runs):
        run.violate("A7", f"{M}:assert_equal_vectors:lengths", mod, tree, "assert_equal_vectors passes for vectors of different lengths (the surplus components are never compared)")
    run.sample({"module": M, "functions": ["approx_equal_numbers", "approx_equal_quantities", "assert_equal", "assert_equal_vectors"]})
