"""C08 - the approximate-equality oracle: decision-dependence facts of core/approx.py (E3)."""
from __future__ import annotations

import ast
from fractions import Fraction

from ..core import Run, dotted, norm, AnalysisError
from ..dim import World
from ..flow import Fn, kw, must_all, monomial, numeric_consts, node_of, conditions_for

EXPLANATION = (
    "Dataflow facts about the ~100-line oracle in symplyphysics/core/approx.py, decided on a statement CFG with dominators, "
    "reaching definitions and backward slices (no execution): A1 every return of approx_equal_quantities is dominated by the "
    "dimension assertion on (lhs, rhs); A2 its result implies two approx_equal_numbers verdicts, one on re(lhs.sf)/re(rhs.sf), "
    "one on im(lhs.sf)/im(rhs.sf); A3 the only default tolerance is the module constant, which folds to 0.001; A4 the default "
    "absolute tolerance is |lhs*rel| and rel/abs reach pytest.approx(rhs, rel=, abs=) unchanged, the verdict is lhs == approx; "
    "A5 tolerance/dimension keywords are forwarded unchanged down the call chain; A6 assert_equal asserts that verdict, wraps a "
    "bare rhs with the caller's dimension and never re-dimensions lhs; A7 vectors are zipped strictly and every pair asserted.")
ASSUMPTIONS = [
    "pytest.approx(expected, rel=, abs=) accepts |actual-expected| <= max(rel*|expected|, abs) (its documented contract)",
    "sympy re/im return real and imaginary part; Quantity.scale_factor is the SI scale (C05)",
]
TRUSTED = ["pytest.approx", "sympy.re / sympy.im", "python ast"]

M = "symplyphysics.core.approx"
AED = "symplyphysics.core.dimensions.dimensions.assert_equivalent_dimension"
QTY = "symplyphysics.core.symbols.quantities.Quantity"
AEN = M + ".approx_equal_numbers"
AEQ = M + ".approx_equal_quantities"
AE = M + ".assert_equal"


def _pure_forward(fn: Fn, n, expr, param: str) -> bool:
    """expr is the parameter itself (possibly through copies): no call, no arithmetic, no constant."""
    sl = fn.slice(n, expr)
    if sl.params != {param} or sl.calls or numeric_consts(sl) or sl.free:
        return False
    return all(isinstance(e, ast.Name) for e in sl.exprs)


def check(run: Run) -> None:
    w = World(run.src)
    mod = run.src.need(M)
    for rid, text in [
        ("A1", "every return of approx_equal_quantities is dominated by assert_equivalent_dimension(lhs.., rhs..)"),
        ("A2", "approx_equal_quantities returns a conjunction of the re- and the im-comparison of both operands' SI values"),
        ("A3", "the default relative tolerance is the module constant and folds to 0.001"),
        ("A4", "default abs tolerance = |lhs*rel|; rel and abs reach pytest.approx(rhs, rel=, abs=); verdict is lhs == approx"),
        ("A5", "tolerance and dimension keywords are forwarded unchanged along assert_equal(_vectors) -> approx_equal_quantities -> approx_equal_numbers"),
        ("A6", "assert_equal asserts approx_equal_quantities(lhs, rhs); bare rhs wrapped with caller's dimension; lhs never re-dimensioned"),
        ("A7", "assert_equal_vectors zips lhs.components with rhs.components strictly and asserts every pair"),
    ]:
        run.rule(rid, text)

    # ------------------------------------------------------------------ approx_equal_quantities
    f = Fn(w, M, "approx_equal_quantities")
    run.require({"lhs", "rhs"} <= set(f.params), "approx_equal_quantities lost its lhs/rhs parameters")
    aed = f.calls(AED)
    rets = f.cfg.returns()
    run.require(bool(rets), "approx_equal_quantities has no return")
    good_aed = []
    for n, c in aed:
        if len(c.args) >= 4:
            s0, s3 = f.slice(n, c.args[0]), f.slice(n, c.args[3])
        else:
            a0 = c.args[0] if c.args else kw(c, "arg")
            a3 = kw(c, "expected_unit") or (c.args[3] if len(c.args) > 3 else None)
            if a0 is None or a3 is None:
                continue
            s0, s3 = f.slice(n, a0), f.slice(n, a3)
        # the compared pair must be (something from lhs, something from rhs)
        if "lhs" in s0.params and "rhs" not in s0.params and "rhs" in s3.params and "lhs" not in s3.params:
            good_aed.append(n)
    for r in rets:
        run.ob("A1", f"return@{norm(r.ast, 60)}")
        if not f.cfg.dominated_by(r, lambda x: x in good_aed):
            run.violate("A1", f"{f.qual}:return:{norm(r.ast, 80)}", f.mod, r.ast,
                        "a return of approx_equal_quantities is reachable without passing assert_equivalent_dimension on (lhs, rhs)",
                        dimension_checks=[f.line(n) for n, _ in aed])
    # A2
    for r in rets:
        run.ob("A2", f"return@{norm(r.ast, 60)}")
        if r.ast.value is None:
            run.violate("A2", f"{f.qual}:return:None", f.mod, r.ast, "returns None")
            continue
        if isinstance(r.ast.value, ast.Constant) and r.ast.value.value is False:
            continue  # a negative verdict needs no justification
        implied = must_all(f.cfg, r, r.ast.value)
        # what the path to this return has already established: `if not c: return False` before it means c holds here
        for t, pol in (conditions_for(f.fn, r.ast) or []):
            if isinstance(t, str):
                continue
            if pol is True:
                implied += must_all(f.cfg, r, t)
            elif isinstance(t, ast.UnaryOp) and isinstance(t.op, ast.Not):
                implied += must_all(f.cfg, r, t.operand)
        cover = set()
        for c in implied:
            cn = node_of(f.cfg, c)
            if cn is None or f.callee(cn, c) != AEN or len(c.args) < 2:
                continue
            s0, s1 = f.slice(cn, c.args[0]), f.slice(cn, c.args[1])
            for part in ("re", "im"):
                p0 = _has_part(f, cn, c.args[0], part)
                p1 = _has_part(f, cn, c.args[1], part)
                if p0 and p1 and "lhs" in s0.params and "rhs" not in s0.params and "rhs" in s1.params and "lhs" not in s1.params \
                        and _is_si_value(f, cn, c.args[0]) and _is_si_value(f, cn, c.args[1]) \
                        and not _has_part(f, cn, c.args[0], "im" if part == "re" else "re") \
                        and not _has_part(f, cn, c.args[1], "im" if part == "re" else "re"):
                    cover.add(part)
        missing = {"re", "im"} - cover
        if missing:
            run.violate("A2", f"{f.qual}:return:{norm(r.ast, 80)}", f.mod, r.ast,
                        f"the returned verdict does not imply the comparison of the {'/'.join(sorted(missing))} part(s) of the SI values of lhs and rhs "
                        f"(convert_to_si; a raw .scale_factor is gram-based for every dimension that contains mass, so an absolute tolerance given in SI "
                        f"units would be applied in other units)", implied_calls=[norm(c, 80) for c in implied])
    run.sample({"function": f.qual, "returns": [f.line(r) for r in rets], "dimension_check_at": [f.line(n) for n in good_aed]})

    # ------------------------------------------------------------------ A3 + A4: approx_equal_numbers
    g = Fn(w, M, "approx_equal_numbers")
    run.require({"lhs", "rhs", "relative_tolerance", "absolute_tolerance"} <= set(g.params), "approx_equal_numbers parameters changed")
    const = None
    for s in mod.tree.body:
        if isinstance(s, (ast.Assign, ast.AnnAssign)):
            tg = s.targets if isinstance(s, ast.Assign) else [s.target]
            if any(isinstance(t, ast.Name) and t.id == "APPROX_RELATIVE_TOLERANCE" for t in tg):
                const = s
    run.require(const is not None, "APPROX_RELATIVE_TOLERANCE not found")
    run.ob("A3", "constant")
    cv = const.value
    val = None
    try:
        val = ast.literal_eval(cv)
    except (ValueError, SyntaxError):
        m = monomial(cv, lambda e: None)
        val = float(m["#"]) if m else None
    if not (isinstance(val, (int, float)) and abs(val - 0.001) < 1e-15):
        run.violate("A3", f"{M}:APPROX_RELATIVE_TOLERANCE", mod, const, f"default relative tolerance is {norm(cv)} (0.001 = 0.1% required)", value=str(val))
    # writes to the constant anywhere else in the package
    for m2 in run.src.mods.values():
        for nn in ast.walk(m2.tree):
            if isinstance(nn, (ast.Assign, ast.AugAssign, ast.AnnAssign)) and nn is not const:
                tg = nn.targets if isinstance(nn, ast.Assign) else [nn.target]
                for t in tg:
                    if (isinstance(t, ast.Name) and t.id == "APPROX_RELATIVE_TOLERANCE" and m2.name == M) or \
                            (isinstance(t, ast.Attribute) and t.attr == "APPROX_RELATIVE_TOLERANCE"):
                        run.violate("A3", f"{m2.name}:rebinds:APPROX_RELATIVE_TOLERANCE", m2, nn, "the default tolerance constant is re-assigned")
    pa = g.calls("pytest.approx")
    run.require(len(pa) >= 1, "approx_equal_numbers no longer calls pytest.approx")
    rets = g.cfg.returns()
    guarded_inf: list = []
    for r in rets:
        run.ob("A4", f"return@{norm(r.ast, 60)}")
        v = r.ast.value
        vn = r
        for _ in range(4):  # a verdict kept in a local first: follow the single definition
            if isinstance(v, ast.Name):
                ds = g.cfg.reaching().get(vn, {}).get(v.id)
                if ds and len(ds) == 1:
                    dn = next(iter(ds))
                    if dn.kind == "stmt" and isinstance(dn.ast, ast.Assign) and len(dn.ast.targets) == 1 and isinstance(dn.ast.targets[0], ast.Name):
                        v, vn = dn.ast.value, dn
                        continue
            break
        r_at = vn
        ok = False
        why = "the verdict is not `lhs == approx(rhs, rel=..., abs=...)`"
        # the exact comparison lhs == rhs is the right verdict where an operand is infinite (no tolerance can be relative to infinity)
        ve = v.args[0] if isinstance(v, ast.Call) and dotted(v.func) == "bool" and len(v.args) == 1 else v
        if isinstance(ve, ast.Compare) and len(ve.ops) == 1 and isinstance(ve.ops[0], ast.Eq) and {dotted(ve.left), dotted(ve.comparators[0])} == {"lhs", "rhs"}:
            conds = [t for t, pol in (conditions_for(g.fn, r.ast) or []) if not isinstance(t, str) and pol]
            if any(_mentions_infinity(t) and {"lhs", "rhs"} <= {x.id for x in ast.walk(t) if isinstance(x, ast.Name)} for t in conds):
                guarded_inf.append(r)
                continue
        if isinstance(v, ast.Compare) and len(v.ops) == 1 and isinstance(v.ops[0], ast.Eq):
            sides = [v.left, v.comparators[0]]
            for a, b in (sides, sides[::-1]):
                sa = g.slice(r_at, a)
                sb = g.slice(r_at, b)
                if sa.params == {"lhs"} and not sa.calls and not numeric_consts(sa) and "pytest.approx" in {g.callee(node_of(g.cfg, c) or r_at, c) for c in sb.call_nodes}:
                    # the approx call feeding b
                    for c in sb.call_nodes:
                        cn = node_of(g.cfg, c)
                        if cn is None or g.callee(cn, c) != "pytest.approx":
                            continue
                        why = _check_approx_call(g, cn, c)
                        ok = why is None
        if not ok:
            run.violate("A4", f"{g.qual}:return:{norm(r.ast, 80)}", g.mod, r.ast, why or "verdict shape")
    # symmetry at infinity: the default absolute tolerance |lhs * rel| is infinite for an infinite lhs, which would make it equal to everything
    run.ob("A4", "infinite-operands-compared-exactly")
    if not guarded_inf:
        run.violate("A4", f"{g.qual}:infinite-operands", g.mod, g.fn,
                    "approx_equal_numbers has no exact comparison for infinite operands: with the default absolute tolerance |lhs * rel| an infinite lhs equals every rhs, "
                    "while the swapped operands fail - the verdict is not symmetric")
    run.sample({"function": g.qual, "approx_calls": [norm(c, 100) for _, c in pa]})

    # ------------------------------------------------------------------ A5 forwarding
    chains = [
        ("approx_equal_quantities", AEN, ["relative_tolerance", "absolute_tolerance"], 2),
        ("assert_equal", AEQ, ["relative_tolerance", "absolute_tolerance", "dimension"], 1),
        ("assert_equal_vectors", AE, ["relative_tolerance", "absolute_tolerance", "dimension"], 1),
    ]
    for caller, callee, keys, minimum in chains:
        h = Fn(w, M, caller)
        cs = h.calls(callee)
        run.require(len(cs) >= minimum, f"{caller} has {len(cs)} call(s) of {callee.split('.')[-1]}, {minimum} expected")
        for n, c in cs:
            for k in keys:
                run.ob("A5", f"{caller}->{callee.split('.')[-1]}:{k}@{h.line(c)}")
                v = kw(c, k)
                if v is None or not _pure_forward(h, n, v, k):
                    run.violate("A5", f"{h.qual}:{callee.split('.')[-1]}:{k}:{_ordinal(cs, c)}", h.mod, c,
                                f"keyword `{k}` of {callee.split('.')[-1]} does not receive the caller's `{k}` unchanged "
                                f"({'missing' if v is None else norm(v, 60)})")
    # dimension given to the rhs wrapper in approx_equal_quantities / assert_equal comes from the caller
    # ------------------------------------------------------------------ A6
    h = Fn(w, M, "assert_equal")
    asserts = [n for n in h.cfg.stmt_nodes() if n.kind == "stmt" and isinstance(n.ast, ast.Assert)]
    found = False
    for n in asserts:
        for c in must_all(h.cfg, n, n.ast.test):
            cn = node_of(h.cfg, c)
            if cn is not None and h.callee(cn, c) == AEQ and len(c.args) >= 2:
                s0, s1 = h.slice(cn, c.args[0]), h.slice(cn, c.args[1])
                if "lhs" in s0.params and "rhs" not in s0.params and "rhs" in s1.params and "lhs" not in s1.params:
                    # must be on every path: the assert node dominates the normal exit
                    if all(h.cfg.dominated_by(x, lambda y: y is n) for x in h.cfg.normal_exits()):
                        found = True
    run.ob("A6", "assert")
    if not found:
        run.violate("A6", f"{h.qual}:assert", h.mod, h.fn, "assert_equal does not assert approx_equal_quantities(lhs, rhs) on every path to its normal exit")
    for fn_ in (h, f):
        wraps = fn_.calls(QTY)
        rhs_wrapped = False
        for n, c in wraps:
            if not c.args:
                continue
            s = fn_.slice(n, c.args[0])
            d = kw(c, "dimension")
            run.ob("A6", f"{fn_.path}:Quantity@{fn_.line(c)}")
            if "lhs" in s.params and d is not None:
                run.violate("A6", f"{fn_.qual}:Quantity(lhs,dimension)", fn_.mod, c, "lhs is re-wrapped with a caller-supplied dimension (its own dimension must be kept)")
            if s.params == {"rhs"}:
                if d is not None and _pure_forward(fn_, n, d, "dimension"):
                    rhs_wrapped = True
                else:
                    run.violate("A6", f"{fn_.qual}:Quantity(rhs)", fn_.mod, c, "a bare rhs is wrapped without the caller's `dimension`")
        run.ob("A6", f"{fn_.path}:rhs-wrap")
        if not rhs_wrapped:
            run.violate("A6", f"{fn_.qual}:rhs-wrap", fn_.mod, fn_.fn, "no Quantity(rhs, dimension=dimension) wrapper for a bare number")

    # ------------------------------------------------------------------ A7
    v = Fn(w, M, "assert_equal_vectors")
    loops = [n for n in v.cfg.stmt_nodes() if n.kind == "for"]
    ok7 = False
    for lp in loops:
        it = lp.ast.iter
        if isinstance(it, ast.Call) and v.callee(lp, it) == "builtins.zip" and len(it.args) == 2:
            strict = kw(it, "strict")
            s0, s1 = v.slice(lp, it.args[0]), v.slice(lp, it.args[1])
            comp = "components" in s0.attr_names and "components" in s1.attr_names
            sides = s0.params == {"lhs"} and s1.params == {"rhs"} and not s0.calls and not s1.calls and \
                not any(isinstance(x, (ast.Subscript, ast.Slice)) for e in s0.exprs + s1.exprs for x in ast.walk(e))
            tg = lp.ast.target
            if isinstance(strict, ast.Constant) and strict.value is True and comp and sides and isinstance(tg, ast.Tuple) and len(tg.elts) == 2:
                a, b = [e.id for e in tg.elts if isinstance(e, ast.Name)]
                for n, c in v.calls(AE):
                    if len(c.args) >= 2 and isinstance(c.args[0], ast.Name) and isinstance(c.args[1], ast.Name) \
                            and c.args[0].id == a and c.args[1].id == b and n.lexical_tests == ((lp, True), ):
                        ok7 = True
    run.ob("A7", "zip-strict")
    if not ok7:
        run.violate("A7", f"{v.qual}:loop", v.mod, v.fn,
                    "assert_equal_vectors does not assert every (lhs component, rhs component) pair of a strict zip")
    run.sample({"function": v.qual, "loops": [norm(lp.ast.iter, 100) for lp in loops]})


def _ordinal(cs, c) -> int:
    return [x for _, x in cs].index(c)


def _mentions_infinity(t: ast.AST) -> bool:
    return any((isinstance(x, ast.Name) and x.id in ("inf", "oo", "isinf", "Infinity")) or (isinstance(x, ast.Attribute) and x.attr in ("inf", "isinf", "Infinity", "is_infinite"))
               or (isinstance(x, ast.Constant) and isinstance(x.value, str) and x.value.lstrip("+-") == "inf") for x in ast.walk(t))


def _is_si_value(f: Fn, n, expr) -> bool:
    """the compared number is derived from the operand's SI value: convert_to_si(q) (or convert_to(q, dimension_to_si_unit(...))), not from q.scale_factor"""
    sl = f.slice(n, expr)
    names = {(f.callee(node_of(f.cfg, c) or n, c) or "").split(".")[-1] for c in sl.call_nodes}
    if "convert_to_si" in names or ("convert_to" in names and "dimension_to_si_unit" in names):
        return "scale_factor" not in sl.attr_names
    return False


def _has_part(f: Fn, n, expr, part: str) -> bool:
    sl = f.slice(n, expr)
    for c in sl.call_nodes:
        cn = node_of(f.cfg, c) or n
        if f.callee(cn, c) == f"sympy.{part}":
            return True
    return False


def _check_approx_call(g: Fn, n, c: ast.Call):
    """pytest.approx(rhs, rel=<relative tolerance>, abs=<absolute tolerance>) with the documented defaults."""
    if not c.args:
        return "pytest.approx is called without the expected value"
    s = g.slice(n, c.args[0])
    if s.params != {"rhs"} or s.calls or numeric_consts(s):
        return f"the expected value given to pytest.approx is not rhs itself ({norm(c.args[0], 60)})"
    rel, ab = kw(c, "rel"), kw(c, "abs")
    if rel is None or ab is None:
        return "pytest.approx is called without rel= or abs="
    sr = g.slice(n, rel)
    if sr.params != {"relative_tolerance"} or numeric_consts(sr) or (sr.free - {"APPROX_RELATIVE_TOLERANCE"}) or sr.calls:
        return (f"rel= of pytest.approx depends on {sorted(sr.params | sr.free | {str(x) for x in numeric_consts(sr)} | sr.calls)}; "
                f"it must be the caller's relative_tolerance or the module default, unchanged")
    if "APPROX_RELATIVE_TOLERANCE" not in sr.free:
        return "rel= of pytest.approx has no default (the module constant does not reach it)"
    sa = g.slice(n, ab)
    if not {"absolute_tolerance", "lhs", "relative_tolerance"} <= sa.params:
        return f"abs= of pytest.approx depends only on {sorted(sa.params)}: the default |lhs*relative tolerance| does not reach it"
    if "rhs" in sa.params:
        return "abs= of pytest.approx depends on rhs"
    if numeric_consts(sa) or (sa.free - {"APPROX_RELATIVE_TOLERANCE"}) or (sa.calls - {"abs"}):
        return f"abs= of pytest.approx involves {sorted({str(x) for x in numeric_consts(sa)} | (sa.free - {'APPROX_RELATIVE_TOLERANCE'}) | (sa.calls - {'abs'}))}"
    # shape of the default: every definition of the abs tolerance other than the parameter is |lhs^1 * rel^1|
    defaults = [d for d in sa.def_nodes if isinstance(d.ast, (ast.Assign, ast.AnnAssign)) and
                any(isinstance(t, ast.Name) and t.id == "absolute_tolerance" for t in (d.ast.targets if isinstance(d.ast, ast.Assign) else [d.ast.target]))]
    if not defaults:
        return "no default for the absolute tolerance"
    for d in defaults:
        m = monomial(d.ast.value, lambda e: e.id if isinstance(e, ast.Name) else None)
        if m is None or {k: v for k, v in m.items() if k != "#"} != {"lhs": Fraction(1), "relative_tolerance": Fraction(1)} or abs(m["#"]) != 1 \
                or not _under_abs(d.ast.value):
            return f"default absolute tolerance is `{norm(d.ast.value, 60)}`, not |lhs * relative_tolerance|"
        # the default is used only when the caller gave none
        tests = [t for t, br in d.lexical_tests]
        if not any(_is_none_test(t.ast.test, "absolute_tolerance") for t in tests if isinstance(t.ast, ast.If)):
            return "the default absolute tolerance overrides a caller-supplied one"
    return None


def _under_abs(e: ast.AST) -> bool:
    return isinstance(e, ast.Call) and dotted(e.func) in ("abs", "Abs")


def _is_none_test(t: ast.AST, name: str) -> bool:
    return isinstance(t, ast.Compare) and isinstance(t.left, ast.Name) and t.left.id == name and len(t.ops) == 1 \
        and isinstance(t.ops[0], ast.Is) and isinstance(t.comparators[0], ast.Constant) and t.comparators[0].value is None
