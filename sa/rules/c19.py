"""C19 - documentation generation: static preconditions of a total, faithful, deterministic run (E2/E3/E0)."""
from __future__ import annotations

import ast
import builtins
import re

from ..core import Run, AnalysisError, dotted, norm, PKG, Mod
from ..dim import World
from ..pyreader import PyReader, Raised
from ..flow import CFG, Fn, node_calls

EXPLANATION = (
    "The suite never runs the documentation generator. Its preconditions on the shape of the ~800 input modules, and the "
    "determinism / state-restoration facts of the generator's own code, are decided statically: D1 exec compatibility - the "
    "generator runs each module with exec(code, {}, context), so nested scopes executed at module level (generator expressions, "
    "invoked lambdas, called local functions, class bodies) cannot see module-level names; none occurs in the prefix the patcher "
    "keeps; D2 no `from __future__` import in a documented module (the patcher inserts an import before it); D3 one page per "
    "module/package (no name.py next to package name/, every walked directory has __init__.py); D4 placeholders: at most one of "
    "each directive per member docstring (only the first is substituted), none in function/module docstrings, documented public "
    "names bound once in the kept prefix; D5 every :symbols: / :quantity_notation: role names an object the role resolver "
    "accepts, every public Symbol of a symbols sub-module is exported in symbols.__all__, __all__ names are bound; D6 no loop "
    "with order-visible effects iterates an unordered collection in the generator; D7 every inserted evaluation-disable node is "
    "paired with a reset node in the same iteration and reset stores the default True; D8 the role resolvers register every name "
    "bound to a Symbol / Quantity (the isinstance test is the only admission test) and no f-string of the generator or printers emits a "
    "literal {name} of a variable in scope. Not decided: that Sphinx/exec/printing actually succeed on every module.")
ASSUMPTIONS = [
    "the kept prefix is computed with a replica of the patcher's rule; anchors in patch.py are checked so that a change of that rule ends the run with ANALYSIS-ERROR",
    "CPython 3.12 scoping: list/set/dict comprehensions are inlined (PEP 709), generator expressions, lambdas, functions and class bodies are not",
]
TRUSTED = ["CPython scoping rules", "python ast"]

DOCS = "symplyphysics.docs."
SYMBOL_ROLE = re.compile(r":symbols:`(\w*)`")
QUANTITY_ROLE = re.compile(r":quantity_notation:`(\w*)`")
BUILTINS = set(dir(builtins))
EXCLUDED_DIRS = ("core", )
# (module, function path, sha256[:16] of ast.dump of the function as of the tree the replica was derived from)
REPLICA_ANCHORS = [
]


def _is_private(s: str) -> bool:
    return s.startswith(".") or s.startswith("_")


_TITLE_READER = {}


def has_title(doc: str, run: "Run" = None) -> bool:
    """does the generator find a title in this module docstring? docs.parse.find_title_and_description is EVALUATED (sa/pyreader.py) on the docstring -
    the text of the documented module is the generator's input, and both are source text of the tree - instead of being mirrored by a replica"""
    from ..pyreader import PyReader, Raised
    key = id(run.src) if run is not None else 0
    if key not in _TITLE_READER:
        pm = run.src.need(DOCS + "parse")
        _TITLE_READER.clear()
        _TITLE_READER[key] = (pm.tree, {})
    tree, cache = _TITLE_READER[key]
    if doc in cache:
        return cache[doc]
    R = PyReader(tree, "docs/parse.py", depth_limit=6)
    try:
        got = R.call("find_title_and_description", [doc])
    except Raised:
        got = None
    cache[doc] = got is not None
    return cache[doc]


def get_doc(tree: ast.Module):
    import inspect
    d = ast.get_docstring(tree)
    return d


def walked_modules(run: Run) -> list[Mod]:
    """Modules the generator visits: under symplyphysics/, not under excluded or private directories."""
    out = []
    for m in run.src.by_rel.values():
        parts = m.rel.split("/")
        if parts[0] != PKG:
            continue
        dirs = parts[1:-1]
        if any(_is_private(d) for d in dirs) or (dirs and dirs[0] in EXCLUDED_DIRS):
            continue
        fname = parts[-1]
        if fname == "__init__.py" or not fname.startswith("__"):
            out.append(m)
    return out


class AstReader(PyReader):
    """pyreader over CONCRETE syntax-tree objects: the documentation patcher is a pure function from a module's syntax tree to a syntax tree, and its
    inputs are the source files of this very tree. Attribute reads/stores, isinstance, node construction and ast.get_docstring are the real ones of the
    standard library; the control flow is that of the patcher's source."""

    def global_value(self, n):
        if isinstance(n, ast.Name) and n.id == "ast" and "ast" not in self.functions:
            return ("module", "ast")
        return super().global_value(n)

    def hook_attr(self, base, attr, n):
        if base == ("module", "ast"):
            if hasattr(ast, attr):
                return ("astattr", attr)
            raise Raised("AttributeError", getattr(n, "lineno", 0))
        if isinstance(base, ast.AST):
            if hasattr(base, attr):
                return getattr(base, attr)
            raise Raised("AttributeError", getattr(n, "lineno", 0))
        return NotImplemented

    def is_instance(self, v, names, n):
        classes = tuple(getattr(ast, nm) for nm in names if isinstance(getattr(ast, nm, None), type))
        if len(classes) != len(names):
            self.fail(n, "isinstance outside the modelled classes")
        return isinstance(v, classes)

    def store_attr(self, base, attr, value, n) -> bool:
        if isinstance(base, ast.AST):
            setattr(base, attr, value)
            return True
        return False

    def _classes(self, v, n) -> tuple:
        if isinstance(v, tuple) and len(v) == 2 and v[0] == "astattr" and isinstance(getattr(ast, v[1]), type):
            return (getattr(ast, v[1]), )
        if isinstance(v, list):
            return tuple(c for x in v for c in self._classes(x, n))
        self.fail(n, "class expression")

    def hook_method(self, base, attr, args, kwargs, n):
        if base == ("module", "ast"):
            return self._ast_call(attr, args, kwargs, n)
        return NotImplemented

    def _ast_call(self, name, args, kwargs, n):
        obj = getattr(ast, name, None)
        if isinstance(obj, type) and issubclass(obj, ast.AST):
            return obj(*args, **kwargs)
        if name == "get_docstring" and len(args) >= 1 and isinstance(args[0], ast.AST):
            try:
                return ast.get_docstring(args[0], *args[1:], **kwargs)
            except TypeError:
                raise Raised("TypeError", getattr(n, "lineno", 0))
        if name in ("fix_missing_locations", "copy_location", "increment_lineno") and args:
            return args[0]
        self.fail(n, f"ast.{name} is outside the supported subset")

    def hook_call(self, n, env, fns):
        f = dotted(n.func) or ""
        name = f.split(".")[-1]
        if name == "isinstance" and len(n.args) == 2:
            v = self.ev(n.args[0], env, fns)
            return isinstance(v, self._classes(self.ev(n.args[1], env, fns), n))
        if name == "getattr" and len(n.args) in (2, 3):
            v, a = self.ev(n.args[0], env, fns), self.ev(n.args[1], env, fns)
            if isinstance(v, ast.AST) and isinstance(a, str):
                if hasattr(v, a):
                    return getattr(v, a)
                if len(n.args) == 3:
                    return self.ev(n.args[2], env, fns)
                raise Raised("AttributeError", getattr(n, "lineno", 0))
        if name == "hasattr" and len(n.args) == 2:
            v, a = self.ev(n.args[0], env, fns), self.ev(n.args[1], env, fns)
            if isinstance(v, ast.AST) and isinstance(a, str):
                return hasattr(v, a)
        if name == "str" and len(n.args) == 1 and not isinstance(n.func, ast.Attribute):
            v = self.ev(n.args[0], env, fns)
            if v is None or isinstance(v, (str, int, float, bool, bytes, complex)) or v is Ellipsis:
                return str(v)
        if name == "any" and len(n.args) == 1:
            v = self.ev(n.args[0], env, fns)
            if isinstance(v, list):
                return any(self.truthy(x, n) for x in v)
        if name == "all" and len(n.args) == 1:
            v = self.ev(n.args[0], env, fns)
            if isinstance(v, list):
                return all(self.truthy(x, n) for x in v)
        return NotImplemented

    def ev(self, n, env, fns):
        if isinstance(n, ast.Constant) and not isinstance(n.value, (bool, int, str, float)) and n.value is not None:
            return n.value
        if isinstance(n, ast.Constant) and isinstance(n.value, float):
            return n.value
        return super().ev(n, env, fns)


_PATCH_READER: dict = {}


def kept_prefix(tree: ast.Module, run: Run = None) -> tuple[list, list[int]]:
    """What docs.patch.patch_sympy_evaluate keeps of a module, by EVALUATING the patcher's source on the module's syntax tree (AstReader): the statements of
    the patched body (original nodes; the import the patcher inserts is represented by None, its disable/reset calls are left out) and [] (kept for the
    callers' signature)."""
    key = id(run.src) if run is not None else 0
    if key not in _PATCH_READER:
        _PATCH_READER.clear()
        _PATCH_READER[key] = run.src.need(DOCS + "patch").tree
    ptree = _PATCH_READER[key]
    R = AstReader(ptree, "docs/patch.py", depth_limit=8)
    shell = ast.Module(body=list(tree.body), type_ignores=[])
    original = {id(s_) for s_ in tree.body}
    try:
        out = R.call("patch_sympy_evaluate", [shell])
    except Raised as r:
        raise AnalysisError(f"C19: docs.patch.patch_sympy_evaluate raises {r.exc} on a catalogue module")
    if not isinstance(out, ast.Module):
        raise AnalysisError("C19: docs.patch.patch_sympy_evaluate does not return the module")
    kept = []
    inserted = []  # (position in the patched body, kind) of what the patcher put in: "import" | "disable" | "reset" | "other"
    for pos, s_ in enumerate(out.body):
        if id(s_) in original:
            kept.append(s_)
        elif isinstance(s_, (ast.Import, ast.ImportFrom)):
            kept.append(None)
            inserted.append((pos, "import"))
        else:
            txt = ast.unparse(s_) if isinstance(s_, ast.AST) else ""
            inserted.append((pos, "disable" if txt == "disable_sympy_evaluation()" else ("reset" if txt == "reset_sympy_evaluation()" else "other")))
    kept_prefix.last_patched = out
    return kept, inserted


class _Captured(Exception):

    def __init__(self, env):
        self.env = env


class MembersReader(AstReader):
    """docs.parse.find_members_and_functions evaluated up to the point where it compiles and executes the module: what it has decided by then - which names are
    members and which string documents each - is all the static part there is"""

    def hook_call(self, n, env, fns):
        name = (dotted(n.func) or "").split(".")[-1]
        if name == "compile" and isinstance(n.func, ast.Name):
            raise _Captured(dict(env))
        if name in ("FunctionWithDoc", "MemberWithDoc", "LawSymbol") and name not in self.functions:
            return ("record", name, [self.ev(a, env, fns) for a in n.args])
        if name == "_clean_docstring" and len(n.args) == 1:
            return self.ev(n.args[0], env, fns)
        return super().hook_call(n, env, fns)


_MEMBERS_READER: dict = {}


def documented_members(patched: ast.Module, run: Run) -> tuple[list, dict]:
    """(member names in order, {name: docstring}) as find_members_and_functions associates them for a patched module"""
    key = id(run.src)
    if key not in _MEMBERS_READER:
        _MEMBERS_READER.clear()
        _MEMBERS_READER[key] = run.src.need(DOCS + "parse").tree
    R = MembersReader(_MEMBERS_READER[key], "docs/parse.py", depth_limit=8)
    try:
        R.call("find_members_and_functions", [patched])
    except _Captured as c:
        env = c.env
    except Raised as r:
        raise AnalysisError(f"C19: docs.parse.find_members_and_functions raises {r.exc} before it executes the module")
    else:
        raise AnalysisError("C19: docs.parse.find_members_and_functions no longer compiles the module: rule D1/D4 must be re-derived")
    dicts = [v for v in env.values() if isinstance(v, dict) and all(isinstance(k_, str) for k_ in v)]
    lists = [v for v in env.values() if isinstance(v, list) and v and all(isinstance(x, str) for x in v)]
    docs = [d for d in dicts if all(isinstance(x, str) or x is None or not isinstance(x, (list, dict, tuple)) for x in d.values())]
    if len(docs) != 1 or len(lists) > 1:
        # an empty module: nothing collected
        if not docs and not lists:
            return [], {}
        if len(docs) == 1 and not lists:
            return [], docs[0]
        raise AnalysisError("C19: cannot tell the member list and the docstring table of find_members_and_functions apart")
    return (lists[0] if lists else []), docs[0]


def _d10_pages(run: Run) -> None:
    """D10: docs.view.print_law / print_package EVALUATED with marker strings for every part: whatever is listed or documented reaches the page - the header, the
    table of contents when there is something to list, and ALWAYS the members and the functions (a package that documents constants itself and has no
    sub-pages - symplyphysics.quantities - still lists them)"""
    run.rule("D10", "every page carries its title, description, module directive, its documented members and functions; a package page also its sub-packages and laws - for every combination of empty and non-empty parts")
    vm = run.src.need(DOCS + "view")

    class R(PyReader):

        def hook_call(self, n, env, fns):
            name = (dotted(n.func) or "").split(".")[-1]
            if name == "_members_to_doc" and name in self.functions:
                ms = self.ev(n.args[0], env, fns)
                return "<<MEMBERS>>" if ms else ""
            if name == "_functions_to_doc" and name in self.functions:
                fs_ = self.ev(n.args[0], env, fns)
                return "<<FUNCTIONS>>" if fs_ else ""
            return NotImplemented

    for fname in ("print_law", "print_package"):
        run.require(any(isinstance(f_, ast.FunctionDef) and f_.name == fname for f_ in vm.tree.body), f"docs.view.{fname} not found")
    import itertools as _it
    for members, functions in _it.product((["m"], []), repeat=2):
        run.ob("D10", f"print_law[members={bool(members)},functions={bool(functions)}]")
        rd = R(vm.tree, "docs/view.py", depth_limit=8)
        try:
            got = rd.call("print_law", ["TITLE", "DESCRIPTION", members, functions, "pkg.law"])
        except Raised as r_:
            got = r_
        need = ["TITLE", "=====", "DESCRIPTION", "pkg.law"] + (["<<MEMBERS>>"] if members else []) + (["<<FUNCTIONS>>"] if functions else [])
        missing = [x for x in need if not (isinstance(got, str) and x in got)]
        if missing:
            run.violate("D10", f"{DOCS}view:print_law:{','.join(missing)}", vm, vm.tree,
                        f"print_law(members={'some' if members else 'none'}, functions={'some' if functions else 'none'}) does not put {missing} on the page "
                        f"({'raises ' + got.exc if isinstance(got, Raised) else 'returned text lacks them'})")
            break
    for members, functions, laws, packages in _it.product((["m"], []), (["f"], []), (["LAW1"], []), (["PKG1"], [])):
        run.ob("D10", f"print_package[members={bool(members)},functions={bool(functions)},laws={bool(laws)},packages={bool(packages)}]")
        rd = R(vm.tree, "docs/view.py", depth_limit=8)
        try:
            got = rd.call("print_package", ["TITLE", "DESCRIPTION", members, functions, "pkg", laws, packages])
        except Raised as r_:
            got = r_
        need = ["TITLE", "=====", "DESCRIPTION", "pkg"] + (["<<MEMBERS>>"] if members else []) + (["<<FUNCTIONS>>"] if functions else []) + laws + packages \
            + (["toctree"] if laws or packages else [])
        missing = [x for x in need if not (isinstance(got, str) and x in got)]
        if missing:
            run.violate("D10", f"{DOCS}view:print_package:{','.join(missing)}", vm, vm.tree,
                        f"print_package(members={'some' if members else 'none'}, functions={'some' if functions else 'none'}, laws={laws}, packages={packages}) does not put {missing} on the page "
                        f"({'raises ' + got.exc if isinstance(got, Raised) else 'the returned text lacks them'}): a package that documents its own members and has no sub-pages "
                        f"(symplyphysics.quantities, the 27 constants) loses them, and every reference to them stops resolving")
            break


def _d11_directives(run: Run) -> None:
    """D11: docs.parse._find_law_directives EVALUATED on member docstrings with both placeholders (in either order), one of them, none: every placeholder that is present
    is found, at its position, with its type - the page composer replaces exactly what is found, so a missed placeholder stays on the page as literal text"""
    run.rule("D11", "_find_law_directives finds every `:laws:symbol::` / `:laws:latex::` placeholder of a docstring at its position, whichever of the two are present and in whatever order")
    pm = run.src.need(DOCS + "parse")
    run.require(any(isinstance(f_, ast.FunctionDef) and f_.name == "_find_law_directives" for f_ in pm.tree.body), "docs.parse._find_law_directives not found")
    SYM, LAT = ":laws:symbol::", ":laws:latex::"

    class R(PyReader):

        def hook_call(self, n, env, fns):
            name = (dotted(n.func) or "").split(".")[-1]
            if name == "LawDirective" and name not in self.functions:
                args = [self.ev(a, env, fns) for a in n.args]
                kw_ = {k.arg: self.ev(k.value, env, fns) for k in n.keywords if k.arg}
                vals = args + [kw_[k] for k in ("start", "end", "directive_type") if k in kw_]
                return ("directive", ) + tuple(vals)
            return NotImplemented

        def global_value(self, n):
            d = dotted(n)
            if d in ("LawDirectiveType.SYMBOL", "LawDirectiveType.LATEX"):
                return d.split(".")[-1]
            return super().global_value(n)

    docs = {
        "both, symbol first": f"Text.\n\n{SYM}\n\n{LAT}\n",
        "both, latex first": f"Text.\n\n{LAT}\n\n{SYM}\n",
        "symbol only": f"Text.\n\n{SYM}\n",
        "latex only": f"Text about the law.\n\n{LAT}\n",
        "latex only, at the very end": f"Text.\n\n{LAT}",
        "neither": "Text.\n",
    }
    for label, doc in docs.items():
        run.ob("D11", label)
        rd = R(pm.tree, "docs/parse.py", depth_limit=6)
        try:
            got = rd.call("_find_law_directives", [doc])
        except Raised as r_:
            run.violate("D11", f"{DOCS}parse:_find_law_directives:{label}", pm, pm.tree, f"_find_law_directives raises {r_.exc} for a docstring with {label}")
            continue
        want = set()
        for marker, typ in ((SYM, "SYMBOL"), (LAT, "LATEX")):
            pos = doc.find(marker)
            if pos >= 0:
                want.add((pos, pos + len(marker), typ))
        have = {tuple(x[1:4]) for x in got if isinstance(x, tuple) and x and x[0] == "directive"} if isinstance(got, list) else None
        if have != want:
            run.violate("D11", f"{DOCS}parse:_find_law_directives:{label}", pm, pm.tree,
                        f"_find_law_directives on a docstring with {label} finds {sorted(have) if have is not None else got!r}, the placeholders present are {sorted(want)}: "
                        f"a placeholder that is not found stays on the generated page as literal text and the member loses its formula")


def _patcher_anchors(run: Run) -> None:
    # the replica in this checker (kept_prefix, member/docstring association) mirrors two functions of the generator; any change of
    # their code (not of comments/formatting) means the replica must be re-derived: the analysis refuses instead of guessing
    import hashlib
    for modname, path, want in REPLICA_ANCHORS:
        mm = run.src.need(modname)
        cur = mm.tree
        for part in path.split("."):
            cur = next((x for x in ast.walk(cur) if isinstance(x, (ast.FunctionDef, ast.ClassDef)) and x.name == part and x is not cur), None)
            if cur is None:
                raise AnalysisError(f"C19: {modname}:{path} not found")
        got = hashlib.sha256(ast.dump(cur, annotate_fields=False, include_attributes=False).encode()).hexdigest()[:16]
        if want and got != want:
            return (f"C19: the code of {modname}:{path} changed (digest {got}, replica derived from {want}): "
                    f"the checker's replica of that rule must be re-derived before the generator's inputs can be judged")
    p = run.src.need(DOCS + "parse")
    # rule D1 rests on HOW the patched module is executed: exec(<code>, {}, <a separate mapping>) - empty globals, names land in the locals mapping, so
    # nested scopes cannot see module-level names. Whatever the two variables are called.
    execs = [c for c in ast.walk(p.tree) if isinstance(c, ast.Call) and dotted(c.func) == "exec"]
    if not (execs and all(len(c.args) == 3 and not c.keywords and isinstance(c.args[1], ast.Dict) and not c.args[1].keys and not isinstance(c.args[2], ast.Dict) for c in execs)):
        raise AnalysisError("C19: docs/parse.py no longer runs exec(<code>, {}, <context>): rule D1 must be re-derived")
    return None


# ------------------------------------------------------------------------------------------ D1


def _bound_names(node: ast.AST) -> set:
    """names bound inside a nested scope (params, stores, comprehension targets, imports, nested defs)"""
    out = set()
    if isinstance(node, (ast.FunctionDef, ast.AsyncFunctionDef, ast.Lambda)):
        a = node.args
        out |= {p.arg for p in a.posonlyargs + a.args + a.kwonlyargs}
        if a.vararg:
            out.add(a.vararg.arg)
        if a.kwarg:
            out.add(a.kwarg.arg)
    extra = []
    if isinstance(node, ast.GeneratorExp):
        body = [node.elt]
        extra = node.generators
    else:
        body = node.body if isinstance(node.body, list) else [node.body]
    for b in list(body) + list(extra):
        for x in ast.walk(b):
            if isinstance(x, ast.Name) and isinstance(x.ctx, (ast.Store, ast.Del)):
                out.add(x.id)
            elif isinstance(x, (ast.FunctionDef, ast.AsyncFunctionDef, ast.ClassDef)):
                out.add(x.name)
            elif isinstance(x, (ast.Import, ast.ImportFrom)):
                out |= {(al.asname or al.name).split(".")[0] for al in x.names}
            elif isinstance(x, ast.ExceptHandler) and x.name:
                out.add(x.name)
            elif isinstance(x, ast.arg):
                out.add(x.arg)
    return out


def _global_reads(scope: ast.AST, module_names: set) -> list[str]:
    """module-level names read from inside the nested scope `scope` (these are looked up in exec's *globals*, which is {})."""
    local = _bound_names(scope)
    reads = []
    if isinstance(scope, ast.GeneratorExp):
        parts = [scope.elt] + [g for i, gen in enumerate(scope.generators) for g in ([gen.target] + gen.ifs + ([gen.iter] if i > 0 else []))]
    elif isinstance(scope, ast.Lambda):
        parts = [scope.body]
    elif isinstance(scope, ast.ClassDef):
        parts = list(scope.body)
    else:
        parts = list(scope.body)
    for p in parts:
        for x in ast.walk(p):
            if isinstance(x, ast.Name) and isinstance(x.ctx, ast.Load) and x.id not in local and x.id not in BUILTINS and x.id in module_names:
                reads.append(x.id)
    return sorted(set(reads))


def exec_incompatibilities(kept: list) -> list[tuple[ast.AST, str, str]]:
    out = []
    module_names = set()
    for s in kept:
        if s is None:
            continue
        for x in ast.walk(s) if not isinstance(s, (ast.FunctionDef, ast.AsyncFunctionDef, ast.ClassDef)) else [s]:
            if isinstance(x, ast.Name) and isinstance(x.ctx, ast.Store):
                module_names.add(x.id)
        if isinstance(s, (ast.FunctionDef, ast.AsyncFunctionDef, ast.ClassDef)):
            module_names.add(s.name)
        elif isinstance(s, (ast.Import, ast.ImportFrom)):
            module_names |= {(al.asname or al.name).split(".")[0] for al in s.names}
    defs = {s.name: s for s in kept if isinstance(s, (ast.FunctionDef, ast.AsyncFunctionDef))}

    def scan(expr_root: ast.AST) -> None:
        stack = [expr_root]
        while stack:
            x = stack.pop()
            if isinstance(x, (ast.FunctionDef, ast.AsyncFunctionDef)):
                # decorators and defaults run at module level, the body does not (unless called: handled below)
                stack.extend(x.decorator_list)
                stack.extend(d for d in x.args.defaults + x.args.kw_defaults if d is not None)
                continue
            if isinstance(x, ast.ClassDef):
                r = _global_reads(x, module_names)
                if r:
                    out.append((x, f"class:{x.name}", f"class body of `{x.name}` reads module-level name(s) {r}"))
                stack.extend(x.bases)
                continue
            if isinstance(x, ast.GeneratorExp):
                r = _global_reads(x, module_names)
                if r:
                    out.append((x, f"genexp:{norm(x, 60)}", f"generator expression `{norm(x, 50)}` reads module-level name(s) {r}"))
                stack.append(x.generators[0].iter)
                continue
            if isinstance(x, ast.Call):
                # an invoked lambda / a lambda handed to a call, a call of a local function
                for a in list(x.args) + [k.value for k in x.keywords] + [x.func]:
                    if isinstance(a, ast.Lambda):
                        r = _global_reads(a, module_names)
                        if r:
                            out.append((a, f"lambda:{norm(a, 60)}", f"lambda `{norm(a, 50)}` handed to a module-level call reads module-level name(s) {r}"))
                if isinstance(x.func, ast.Name) and x.func.id in defs:
                    r = _global_reads(defs[x.func.id], module_names)
                    if r:
                        out.append((x, f"call:{x.func.id}", f"`{x.func.id}(...)` is called at module level and its body reads module-level name(s) {r}"))
            stack.extend(ast.iter_child_nodes(x))

    for s in kept:
        if s is not None:
            scan(s)
    return out


# ------------------------------------------------------------------------------------------ the check


def check(run: Run) -> None:
    for rid, text in [
        ("D1", "no nested scope executed at module level reads a module-level name in the kept prefix of a documented module"),
        ("D2", "no `from __future__` import in a documented module"),
        ("D3", "one page per module/package: no name.py beside package name/, every walked directory is a package"),
        ("D4", "at most one of each placeholder per member docstring; none in function/module docstrings; documented public names bound once"),
        ("D5", "every :symbols:/:quantity_notation: role resolves; public Symbols of symbols/*.py are exported; __all__ names are bound"),
        ("D6", "no loop with order-visible effects iterates an unordered collection in the generator"),
        ("D7", "every evaluation-disable insertion is paired with a reset insertion; reset restores the default True"),
        ("D8", "the role resolvers register every name bound to a Symbol / Quantity (the only admission test is the isinstance check), and no "
               "f-string of the generator or its printers emits a literal `{name}` where `name` is a variable in scope (an unsubstituted placeholder)"),
    ]:
        run.rule(rid, text)
    stale = _patcher_anchors(run)
    w = World(run.src)
    if stale:
        # rules D1-D4 judge the generator's *inputs* through the replica: not decidable now. The rules about the generator's own
        # code (D5 tables, D6 ordering, D7 pairing) do not depend on it and are still evaluated; without a finding the run refuses.
        run.skip("D1", "symplyphysics/docs/patch.py", stale)
        _d5_tables_only = True
        _d6(run, w)
        _d7(run, w)
        _d8(run, w)
        _d10_pages(run)
        _d11_directives(run)
        if not run.findings:
            raise AnalysisError(stale)
        return
    walked = walked_modules(run)
    documented = []
    run.rule("D9", "every catalogue module that carries a module docstring is given a title by find_title_and_description (evaluated on the docstring): otherwise the generator "
             "treats it as undocumented and silently writes no page for it")
    for m in walked:
        doc = ast.get_docstring(m.tree)
        if doc is not None and has_title(doc, run):
            documented.append(m)
        elif doc is not None and m.rel.split("/")[1] in ("laws", "definitions", "conditions"):
            run.violate("D9", f"{m.name}:no-title", m, m.tree,
                        "this module has a module docstring but docs.parse.find_title_and_description finds no title in it (no line of '=' or '-' it accepts as the underline): "
                        "the generator treats the module as undocumented and writes no page - 'exactly one page per documented module' fails silently")
        if doc is not None and m.rel.split("/")[1] in ("laws", "definitions", "conditions"):
            run.ob("D9", m.name, nontrivial=False)
    run.require(len(documented) >= 600, f"only {len(documented)} documented modules found")
    run.notes["walked_modules"] = len(walked)
    run.notes["documented_modules"] = len(documented)

    # ---- symbol / quantity tables for D5
    sym_pkg = run.src.need(PKG + ".symbols")
    sym_sub = {}
    for m in run.src.mods.values():
        if m.name.startswith(PKG + ".symbols.") and m.name.count(".") == 2:
            env = w.env(m.name)
            names = {}
            for n, v in env.names.items():
                if v.kind in ("expr", "any") and v.ident is not None:
                    names[n] = v
            sym_sub[m.name.rsplit(".", 1)[1]] = (m, names)
    run.require(len(sym_sub) >= 5, "symbols sub-modules not found")
    senv = w.env(PKG + ".symbols")
    allv = senv.names.get("__all__")
    if allv is None or allv.kind != "seq" or any(x.kind != "str" for x in allv.extra):
        raise AnalysisError("C19: symbols.__all__ is not a list of string literals")
    sym_all = [x.extra for x in allv.extra]
    resolvable = set()
    for sub, (m, names) in sym_sub.items():
        for n in names:
            resolvable.add(n)
            if not n.startswith("_"):
                run.ob("D5", f"export:{sub}.{n}")
                # the role module raises "Include ... in .__all__" for a Symbol visible in `symbols` but not exported
                if n not in sym_all and n in senv.names:
                    run.violate("D5", f"symbols:{sub}.{n}:not-exported", m, m.tree,
                                f"Symbol `{n}` of symbols/{sub}.py is visible in the symbols package but missing from symbols.__all__: "
                                f"docs.symbols_role raises at import")
    for n in sym_all:
        run.ob("D5", f"__all__:{n}")
        if n not in senv.names:
            run.violate("D5", f"symbols:__all__:{n}", sym_pkg, sym_pkg.tree, f"symbols.__all__ names `{n}`, which is not bound in the package")
    qenv = w.env(PKG + ".quantities")
    quantities = {n for n, v in qenv.names.items() if v.kind == "expr" and v.extra == "quantity"}
    run.require(len(quantities) >= 20, "constants catalogue not understood")

    # ---- per documented module
    kept_statements = 0
    dirs_with_init = {m.rel.rsplit("/", 1)[0] for m in run.src.mods.values() if m.is_pkg}
    seen_dirs = set()
    stems = {}
    for m in walked:
        d = m.rel.rsplit("/", 1)[0]
        if d not in seen_dirs:
            seen_dirs.add(d)
            run.ob("D3", f"dir:{d}")
            if d not in dirs_with_init:
                run.violate("D3", f"dir:{d}:no-init", m, m.tree, f"directory {d} is walked by the generator but has no __init__.py: open() raises and generation stops")
        stem = m.rel[:-3] if not m.is_pkg else d
        stems.setdefault(stem, []).append(m)
    for stem, ms in stems.items():
        if len(ms) > 1:
            run.violate("D3", f"page-collision:{stem}", ms[0], ms[0].tree, f"both {ms[0].rel} and {ms[1].rel} map to the page {stem.replace('/', '.')}.rst")

    for m in documented:
        body = m.tree.body
        # D2
        run.ob("D2", m.name)
        for i, s in enumerate(body):
            if isinstance(s, ast.ImportFrom) and s.module == "__future__":
                run.violate("D2", f"{m.name}:__future__", m, s,
                            "`from __future__` import in a documented module: the patcher inserts its own import before it (SyntaxError at compile)")
        kept, inserted = kept_prefix(m.tree, run)
        kept_statements += len(kept)
        # D7 (by evaluation): what the patcher inserts into this module is one import, placed before every call it inserts, and disable/reset calls in
        # strict alternation - disable, <member>, <docstring>, reset - so that evaluation is switched on again after every formula
        run.ob("D7", f"insertions:{m.name}", nontrivial=False)
        kinds = [k_ for _, k_ in inserted]
        calls = [(p_, k_) for p_, k_ in inserted if k_ in ("disable", "reset")]
        bad_ins = None
        if kinds.count("import") > 1 or "other" in kinds or (calls and "import" not in kinds):
            bad_ins = f"inserts {kinds.count('import')} import(s), {len(calls)} call(s) and {kinds.count('other')} unexpected statement(s)"
        elif calls and min(p_ for p_, _ in calls) < next(p_ for p_, k_ in inserted if k_ == "import"):
            bad_ins = "inserts a disable/reset call before the import that defines it (NameError when the page is executed)"
        elif [k_ for _, k_ in calls] != ["disable", "reset"] * (len(calls) // 2) or len(calls) % 2:
            bad_ins = f"inserts the calls {[k_ for _, k_ in calls]}: every disable_sympy_evaluation() must be followed by its reset_sympy_evaluation() (evaluation stays off for the rest of the module)"
        elif any(b_ - a_ not in (2, 3) for (a_, _), (b_, _) in zip(calls[0::2], calls[1::2])):
            bad_ins = "does not place reset_sympy_evaluation() right after the member (or its docstring) that disable_sympy_evaluation() precedes"
        if bad_ins and "D7-insertions" not in run.notes:
            run.notes["D7-insertions"] = m.name
            run.violate("D7", f"{DOCS}patch:patch_sympy_evaluate:insertions", m, m.tree, f"docs.patch.patch_sympy_evaluate, evaluated on this module, {bad_ins}")
        # D1
        run.ob("D1", m.name)
        for node, construct, msg in exec_incompatibilities(kept):
            run.violate("D1", f"{m.name}:{construct}", m, node, msg + " - under exec(code, {}, context) that is a NameError")
        # D4 (the member / docstring association is the generator's own, evaluated on the patched module)
        names_in_order, docstrings = documented_members(kept_prefix.last_patched, run)
        bound_count = {}
        docs_of = {}
        node_of_doc = {}
        for s in kept:
            if s is None:
                continue
            if isinstance(s, ast.FunctionDef):
                d = ast.get_docstring(s)
                if d and (":laws:symbol::" in d or ":laws:latex::" in d):
                    run.violate("D4", f"{m.name}:{s.name}:function-placeholder", m, s, f"function `{s.name}` has a formula placeholder in its docstring; it is never substituted")
                continue
            if isinstance(s, ast.Assign):
                for t in s.targets:
                    for x in ast.walk(t):
                        if isinstance(x, ast.Name):
                            bound_count[x.id] = bound_count.get(x.id, 0) + 1
                continue
            if isinstance(s, ast.Expr) and isinstance(s.value, ast.Constant) and isinstance(s.value.value, str):
                node_of_doc[s.value.value] = s
        for nm_, text_ in docstrings.items():
            if isinstance(text_, str):
                docs_of.setdefault(nm_, []).append((node_of_doc.get(text_, m.tree), text_))
        mdoc = ast.get_docstring(m.tree) or ""
        if ":laws:symbol::" in mdoc or ":laws:latex::" in mdoc:
            run.violate("D4", f"{m.name}:module-placeholder", m, m.tree, "module docstring has a formula placeholder; it is never substituted")
        for name, items in docs_of.items():
            if name.startswith("_"):
                continue
            run.ob("D4", f"{m.name}:{name}")
            s, text = items[-1]
            for tag in (":laws:symbol::", ":laws:latex::"):
                if text.count(tag) > 1:
                    run.violate("D4", f"{m.name}:{name}:{tag}", m, s, f"docstring of `{name}` has {text.count(tag)} `{tag}` placeholders; only the first is replaced")
            if bound_count.get(name, 0) > 1:
                run.violate("D4", f"{m.name}:{name}:rebound", m, s,
                            f"documented name `{name}` is bound {bound_count[name]} times in the kept prefix: the page shows the last value for every docstring")
        # D5 roles in every docstring that reaches a page
        for node in ast.walk(m.tree):
            if isinstance(node, ast.Constant) and isinstance(node.value, str) and (":symbols:" in node.value or ":quantity_notation:" in node.value):
                for mt in SYMBOL_ROLE.finditer(node.value):
                    run.ob("D5", f"{m.name}:symbols:{mt.group(1)}")
                    if mt.group(1) not in resolvable:
                        run.violate("D5", f"{m.name}:symbols-role:{mt.group(1)}", m, node,
                                    f":symbols:`{mt.group(1)}` names no Symbol of any symbols/*.py sub-module: the role resolver raises ValueError")
                for mt in QUANTITY_ROLE.finditer(node.value):
                    run.ob("D5", f"{m.name}:quantity:{mt.group(1)}")
                    if mt.group(1) not in quantities:
                        run.violate("D5", f"{m.name}:quantity-role:{mt.group(1)}", m, node,
                                    f":quantity_notation:`{mt.group(1)}` names no Quantity of the constants catalogue: the role resolver raises ValueError")
    # D12: the page a :symbols: role links to documents the name. The resolver takes the first sub-module (sorted) that holds the exported OBJECT under that
    # name - an imported name counts; the page of a sub-module documents the names it assigns
    run.rule("D12", "every :symbols: role is linked to the page of a sub-module that defines (assigns) the name, not to one that merely imports it")
    roles_used = set()
    for m in documented:
        for node in ast.walk(m.tree):
            if isinstance(node, ast.Constant) and isinstance(node.value, str) and ":symbols:" in node.value:
                roles_used.update(mt.group(1) for mt in SYMBOL_ROLE.finditer(node.value))
    n12 = 0
    for name in sorted(roles_used):
        exported = senv.names.get(name)
        if exported is None or exported.ident is None:
            continue
        n12 += 1
        run.ob("D12", name)
        for sub in sorted(sym_sub):
            m_, names_ = sym_sub[sub]
            if name in names_ and names_[name].ident == exported.ident:
                if not exported.ident.startswith(f"{m_.name}:"):
                    run.violate("D12", f"symbols:{sub}.{name}:linked-to-importing-module", m_, m_.tree,
                                f":symbols:`{name}` is linked to symbols.{sub}.{name} (the first sub-module that holds the exported object), but symbols/{sub}.py only imports "
                                f"the name from {exported.ident.split(':')[0]}: its page has no entry `{name}`, the cross-reference on every law page that uses the role points nowhere")
                break
    run.floor("D12", n12, 50, "symbol names used in :symbols: roles")
    run.notes["kept_statements"] = kept_statements
    run.sample({"documented_modules": len(documented), "kept_statements": kept_statements, "resolvable_symbols": len(resolvable), "quantities": len(quantities)})
    # positive fixture for D1
    fx = ast.parse(_D1_FIXTURE)
    kept, _ = kept_prefix(fx, run)
    got = sorted(c.split(":")[0] for _, c, _ in exec_incompatibilities(kept))
    if got != ["call", "class", "genexp", "lambda"]:
        raise AnalysisError(f"C19/D1: the scope scanner no longer recognises its positive fixture (got {got})")

    _d6(run, w)
    _d7(run, w)
    _d8(run, w)
    _d10_pages(run)
    _d11_directives(run)


_D1_FIXTURE = '''"""
Title
=====
"""
from sympy import Eq
a = 1
def helper(x):
    return x + a
b = helper(2)
c = sum(a * i for i in range(3))
d = max([1, 2], key=lambda v: v * a)
class K:
    z = a
law = Eq(a, b)
"""
:laws:symbol::
"""
'''

# ------------------------------------------------------------------------------------------ D6

UNORDERED_CALLS = {"set", "frozenset"}
UNORDERED_METHODS = {"iterdir", "glob", "rglob", "listdir", "scandir"}


def _unordered(fn_cfg: CFG, n, e: ast.AST, depth: int = 0) -> str | None:
    """Why expression `e` evaluates to a collection without a defined iteration order (None = ordered or unknown)."""
    if depth > 4:
        return None
    if isinstance(e, (ast.Set, ast.SetComp)):
        return "a set display"
    if isinstance(e, ast.Call):
        d = dotted(e.func) or ""
        last = d.split(".")[-1] if d else (e.func.attr if isinstance(e.func, ast.Attribute) else "")
        if last in ("sorted", ):
            return None
        if last in UNORDERED_CALLS:
            return f"{last}(...)"
        if last in UNORDERED_METHODS:
            return f"{last}() (directory order)"
        if last in ("list", "tuple", "iter", "enumerate", "reversed") and e.args:
            return _unordered(fn_cfg, n, e.args[0], depth + 1)
        if last in ("union", "intersection", "difference", "symmetric_difference"):
            return "a set operation"
        return None
    if isinstance(e, ast.BinOp) and isinstance(e.op, (ast.Sub, ast.BitOr, ast.BitAnd, ast.BitXor)):
        return _unordered(fn_cfg, n, e.left, depth + 1) or _unordered(fn_cfg, n, e.right, depth + 1)
    if isinstance(e, ast.Name):
        ds = fn_cfg.reaching().get(n, {}).get(e.id)
        if ds:
            for dn in ds:
                if dn.kind == "stmt" and isinstance(dn.ast, (ast.Assign, ast.AnnAssign)) and dn.ast.value is not None:
                    r = _unordered(fn_cfg, dn, dn.ast.value, depth + 1)
                    if r:
                        return r
    return None


def _order_visible(loop: ast.For) -> str | None:
    """Does the loop body have an effect whose result depends on iteration order?"""
    targets = {x.id for x in ast.walk(loop.target) if isinstance(x, ast.Name)}
    for s in loop.body:
        for x in ast.walk(s):
            if isinstance(x, (ast.Break, ast.Return)):
                return "first-match exit"
            if isinstance(x, (ast.Assign, ast.AugAssign)):
                tg = x.targets if isinstance(x, ast.Assign) else [x.target]
                for t in tg:
                    if isinstance(t, ast.Subscript):
                        return f"insertion into `{norm(t.value, 30)}`"
            if isinstance(x, ast.Call) and isinstance(x.func, ast.Attribute) and x.func.attr in ("append", "extend", "insert", "write", "writelines", "setdefault", "update"):
                if x.func.attr in ("write", "writelines"):
                    # writing a file that is opened per iteration from the loop variable is order-independent
                    continue
                return f"`{norm(x.func, 40)}`"
    return None


def unsubstituted_placeholders(fn: ast.AST):
    """(node, name) for literal `{name}` text inside an f-string of `fn` where `name` is a parameter or local of fn"""
    scope = set()
    for x in ast.walk(fn):
        if isinstance(x, ast.arg):
            scope.add(x.arg)
        elif isinstance(x, ast.Name) and isinstance(x.ctx, ast.Store):
            scope.add(x.id)
    for x in ast.walk(fn):
        if isinstance(x, ast.JoinedStr):
            for v in x.values:
                if isinstance(v, ast.Constant) and isinstance(v.value, str):
                    for mt in re.finditer(r"\{([A-Za-z_][A-Za-z0-9_]*)\}", v.value):
                        if mt.group(1) in scope:
                            yield x, mt.group(1)


def _symbols_submodules(run: Run, w: World) -> dict:
    out = {}
    for m in run.src.mods.values():
        if m.name.startswith(PKG + ".symbols.") and m.name.count(".") == 2:
            env = w.env(m.name)
            out[m.name.rsplit(".", 1)[1]] = (m, {n: v for n, v in env.names.items() if v.kind in ("expr", "any") and v.ident is not None})
    return out


def _d8(run: Run, w: World) -> None:
    from ..flow import conditions_for
    for modname, cls in ((DOCS + "symbols_role", "Symbol"), (DOCS + "quantity_notation_role", "Quantity")):
        m = run.src.need(modname)
        adds = []
        for loop in [x for x in ast.walk(m.tree) if isinstance(x, ast.For)]:
            for st in loop.body:
                for x in ast.walk(st):
                    if isinstance(x, ast.Expr) and isinstance(x.value, ast.Call) and isinstance(x.value.func, ast.Attribute) and x.value.func.attr == "add" \
                            and not any(isinstance(y, ast.For) and y is not loop and any(z is x for z in ast.walk(y)) for y in ast.walk(loop)):
                        adds.append((loop, x))
        # module-level registration only (process_string never adds)
        adds = [(lp, x) for lp, x in adds if not any(isinstance(f_, ast.FunctionDef) and any(z is x for z in ast.walk(f_)) for f_ in m.tree.body)]
        # the registration is the add of the loop's own name variable
        adds = [(lp, x) for lp, x in adds if x.value.args and dotted(x.value.args[0]) == dotted(lp.target)]
        run.ob("D8", f"{modname}:registration")
        if len(adds) == 0:
            # the same table written as a comprehension: {name for name in dir(container) if isinstance(getattr(container, name), cls)}
            comps = [x for st_ in m.tree.body if not isinstance(st_, (ast.FunctionDef, ast.ClassDef)) for x in ast.walk(st_) if isinstance(x, (ast.SetComp, ast.ListComp))
                     and isinstance(x.elt, ast.Name) and len(x.generators) == 1 and dotted(x.generators[0].target) == x.elt.id]
            if len(comps) == 1:
                g = comps[0].generators[0]
                tests = list(g.ifs)
                ok = len(tests) == 1 and isinstance(tests[0], ast.Call) and dotted(tests[0].func) == "isinstance" and len(tests[0].args) == 2 and dotted(tests[0].args[1]) == cls \
                    and isinstance(tests[0].args[0], ast.Call) and dotted(tests[0].args[0].func) == "getattr" and len(tests[0].args[0].args) == 2 \
                    and dotted(tests[0].args[0].args[1]) == comps[0].elt.id
                if not ok:
                    run.violate("D8", f"{modname}:registration", m, comps[0],
                                f"{modname.rsplit('.', 1)[1]} registers a name under {[norm(t_, 50) for t_ in tests]} instead of exactly "
                                f"`isinstance(getattr(container, name), {cls})`: a documented {cls} left out of the table makes its role unresolvable")
                continue
        if len(adds) != 1:
            raise AnalysisError(f"C19: registration loop of {modname} not understood ({len(adds)} add sites)")
        loop, st = adds[0]
        conds = conditions_for(loop, st) or []
        conds = [(c, p) for c, p in conds if not isinstance(c, str)]
        ok = len(conds) == 1 and conds[0][1] is True and isinstance(conds[0][0], ast.Call) and dotted(conds[0][0].func) == "isinstance" \
            and dotted(conds[0][0].args[1]) == cls
        if ok:
            # the tested object is the attribute that is being registered
            obj, name = dotted(conds[0][0].args[0]), dotted(st.value.args[0]) if st.value.args else None
            defs = [a for a in loop.body if isinstance(a, ast.Assign) and dotted(a.targets[0]) == obj]
            ok = len(defs) == 1 and isinstance(defs[0].value, ast.Call) and dotted(defs[0].value.func) == "getattr" and dotted(defs[0].value.args[1]) == name \
                and dotted(loop.target) == name
        if not ok:
            run.violate("D8", f"{modname}:registration", m, st,
                        f"{modname.rsplit('.', 1)[1]} registers a name under {[('' if p else 'not ') + norm(c, 50) for c, p in conds]} instead of exactly "
                        f"`isinstance(getattr(container, name), {cls})`: a documented {cls} left out of the table makes its role unresolvable "
                        f"(or, for symbols, silently linked to the last module scanned)")
    n = 0
    for m in run.src.mods.values():
        if not m.name.startswith(DOCS):
            continue
        for fn in [x for x in ast.walk(m.tree) if isinstance(x, (ast.FunctionDef, ast.AsyncFunctionDef))]:
            n += 1
            run.ob("D8", f"placeholders:{m.name}:{fn.name}")
            for node, name in unsubstituted_placeholders(fn):
                run.violate("D8", f"{m.name}:{fn.name}:literal-{{{name}}}", m, node,
                            f"f-string `{norm(node, 70)}` in {fn.name} emits the literal text `{{{name}}}` although `{name}` is a variable in scope: "
                            f"the value is not substituted, so the page shows the placeholder instead of the module's own rendering")
    run.floor("D8", n, 40, "functions of the documentation generator scanned for unsubstituted placeholders")
    # the symbols role: the unknown-name refusal is live, and a name defined in several modules is linked to the module whose object symbols.<name> is
    rm = run.src.need(DOCS + "symbols_role")
    ps = next((f_ for f_ in rm.tree.body if isinstance(f_, ast.FunctionDef) and f_.name == "process_string"), None)
    if ps is None:
        raise AnalysisError("C19: symbols_role.process_string not found")
    run.ob("D8", "symbols_role:unknown-name-refused")
    # process_string together with the module's own helpers it calls (transitively): where the search lives is the author's business
    helpers = {f_.name: f_ for f_ in rm.tree.body if isinstance(f_, ast.FunctionDef)}
    scope, todo = [ps], [ps]
    while todo:
        cur = todo.pop()
        for c_ in ast.walk(cur):
            if isinstance(c_, ast.Call) and isinstance(c_.func, ast.Name) and c_.func.id in helpers and helpers[c_.func.id] not in scope:
                scope.append(helpers[c_.func.id])
                todo.append(helpers[c_.func.id])
    ps_nodes = [x for f_ in scope for x in ast.walk(f_)]
    raises = [x for x in ps_nodes if isinstance(x, ast.Raise)]
    live = False
    # owner = next((module for module, names in table.items() if ...), None); if owner is None: raise
    for f_ in scope:
        for a_ in [x for x in ast.walk(f_) if isinstance(x, ast.Assign) and len(x.targets) == 1 and isinstance(x.targets[0], ast.Name) and isinstance(x.value, ast.Call)
                   and dotted(x.value.func) == "next" and len(x.value.args) == 2 and isinstance(x.value.args[0], ast.GeneratorExp)]:
            default = x_ = a_.value.args[1]
            for t_ in [x for x in ast.walk(f_) if isinstance(x, ast.If) and any(isinstance(y, ast.Raise) for st_ in x.body for y in ast.walk(st_)) and x.lineno > a_.lineno]:
                c_ = t_.test
                if isinstance(c_, ast.Compare) and len(c_.ops) == 1 and isinstance(c_.ops[0], (ast.Is, ast.Eq)) and dotted(c_.left) == a_.targets[0].id \
                        and ast.dump(c_.comparators[0]) == ast.dump(default):
                    live = True  # the default of next() is what the refusal tests
    for lp in [x for x in ps_nodes if isinstance(x, ast.For)]:
        if any(isinstance(y, ast.Raise) for st_ in lp.orelse for y in ast.walk(st_)):
            live = True  # for ... else: raise
        targets = {y.id for y in ast.walk(lp.target) if isinstance(y, ast.Name)}
        for t_ in [x for x in ps_nodes if isinstance(x, ast.If) and any(isinstance(y, ast.Raise) for y in ast.walk(x)) and getattr(x, "lineno", 0) > lp.lineno]:
            tested = {y.id for y in ast.walk(t_.test) if isinstance(y, ast.Name)}
            if tested and not (tested & targets) and any(isinstance(a_, ast.Assign) and any(isinstance(tt, ast.Name) and tt.id in tested for tt in a_.targets) for st_ in lp.body for a_ in ast.walk(st_)):
                live = True  # a found-flag set inside the loop and tested afterwards
    if not (raises and live):
        run.violate("D8", f"{DOCS}symbols_role:process_string:dead-refusal", rm, ps,
                    "the 'Unknown symbol' refusal of the :symbols: role cannot fire: the variable it tests is the loop variable itself, which always holds the last module "
                    "scanned - a mistyped or removed symbol name is silently linked to a page that does not define it")
    run.ob("D8", "symbols_role:exported-object")
    ident = any(isinstance(c_, ast.Compare) and any(isinstance(o_, ast.Is) for o_ in c_.ops) and "getattr" in {dotted(y.func) for y in ast.walk(c_) if isinstance(y, ast.Call)}
                for c_ in ps_nodes) or any(isinstance(c_, ast.Compare) and any(isinstance(o_, ast.Is) for o_ in c_.ops) and not any(isinstance(k_, ast.Constant) and k_.value is None for k_ in c_.comparators)
                                           for c_ in ps_nodes)
    if not ident:
        # without an identity test the first module (in sorted order) that has the name wins; that is only right when no name is defined twice
        dup = {}
        for sub, (m_, names_) in _symbols_submodules(run, w).items():
            for n_, v_ in names_.items():
                dup.setdefault(n_, set()).add((sub, v_.ident))
        clashes = sorted(n_ for n_, v_ in dup.items() if len({i_ for _, i_ in v_}) > 1)
        if clashes:
            run.violate("D8", f"{DOCS}symbols_role:process_string:first-module-wins", rm, ps,
                        f"the :symbols: role links a name to the first module that has an attribute of that name; {clashes} are defined as different objects in several "
                        f"modules, so pages are cross-referenced to a symbol that is not the one their equation is written in")
    # the patched module is executed under try/finally: evaluation is restored also when a page fails
    pm_ = run.src.need(DOCS + "parse")
    run.ob("D7", "exec-restores-evaluation-on-failure")
    execs = [x for x in ast.walk(pm_.tree) if isinstance(x, ast.Call) and dotted(x.func) == "exec"]
    guarded = [x for x in ast.walk(pm_.tree) if isinstance(x, ast.Try) and any(isinstance(y, ast.Call) and dotted(y.func) == "exec" for st_ in x.body for y in ast.walk(st_))
               and any(isinstance(y, ast.Call) and (dotted(y.func) or "").endswith("reset_sympy_evaluation") for st_ in x.finalbody for y in ast.walk(st_))]
    if execs and len(guarded) < len(execs):
        run.violate("D7", f"{DOCS}parse:exec-without-finally", pm_, execs[0],
                    "the patched module is executed without try/finally: when a documented member raises between the inserted disable and reset statements, SymPy's global "
                    "evaluation mode stays off for everything that runs afterwards")
    # an indexed symbol is shown with ITS OWN index (x[k] when it was declared over k), not with the default one
    ni = 0
    for m in run.src.mods.values():
        if not m.name.startswith(DOCS):
            continue
        for test in [x for x in ast.walk(m.tree) if isinstance(x, ast.If) and isinstance(x.test, ast.Call) and dotted(x.test.func) == "isinstance" and len(x.test.args) == 2
                     and dotted(x.test.args[1]) == "IndexedSymbol" and isinstance(x.test.args[0], ast.Name)]:
            v = test.test.args[0].id
            for sub in [y for st in test.body for y in ast.walk(st) if isinstance(y, ast.Subscript) and isinstance(y.value, ast.Name) and y.value.id == v]:
                ni += 1
                run.ob("D8", f"{m.name}:indexed-symbol-own-index:{norm(sub, 30)}")
                if dotted(sub.slice) != f"{v}.index":
                    run.violate("D8", f"{m.name}:indexed-symbol-index:{norm(sub, 40)}", m, sub,
                                f"`{norm(sub, 40)}` shows an indexed symbol with `{norm(sub.slice, 30)}` instead of its own `{v}.index`: a symbol declared over another index "
                                f"(Idx('k')) is listed as x[i] while the formula on the same page reads Sum(x[k], k)")
    run.floor("D8", ni, 2, "places where the generator applies an indexed symbol to an index")


def _d6(run: Run, w: World) -> None:
    mods = [m for n, m in run.src.mods.items() if n.startswith(DOCS) or n == "docs.build"]
    run.require(len(mods) >= 8, "documentation generator modules not found")
    nloops = 0
    for m in mods:
        scopes = [m.tree] + [x for x in ast.walk(m.tree) if isinstance(x, (ast.FunctionDef, ast.AsyncFunctionDef))]
        for sc in scopes:
            cfg = CFG(sc)
            for n in cfg.stmt_nodes():
                if n.kind != "for":
                    continue
                nloops += 1
                lp = n.ast
                run.ob("D6", f"{m.name}:{getattr(sc, 'name', '<module>')}:for@{norm(lp.iter, 50)}")
                why = _unordered(cfg, n, lp.iter)
                eff = _order_visible(lp)
                if why and eff:
                    run.violate("D6", f"{m.name}:{getattr(sc, 'name', '<module>')}:for {norm(lp.target, 20)} in {norm(lp.iter, 60)}", m, lp,
                                f"loop over {why} ({norm(lp.iter, 50)}) with an order-visible effect ({eff}): generated output depends on hash seed / directory order")
                # os.walk: dirs and files must be sorted before use
                if isinstance(lp.iter, ast.Call) and (dotted(lp.iter.func) or "").endswith("os.walk") or (isinstance(lp.iter, ast.Call) and dotted(lp.iter.func) == "walk"):
                    if isinstance(lp.target, ast.Tuple) and len(lp.target.elts) == 3 and all(isinstance(e, ast.Name) for e in lp.target.elts):
                        for var in (lp.target.elts[1].id, lp.target.elts[2].id):
                            run.ob("D6", f"{m.name}:os.walk:{var}")
                            uses = [x for s in lp.body for x in ast.walk(s) if isinstance(x, ast.Name) and x.id == var and isinstance(x.ctx, ast.Load)]
                            sorts = [x for s in lp.body for x in ast.walk(s) if isinstance(x, ast.Call) and isinstance(x.func, ast.Attribute)
                                     and x.func.attr == "sort" and dotted(x.func.value) == var]
                            consuming = [u for u in uses if not _is_receiver_of(lp, u, ("sort", "clear"))]
                            if consuming and not sorts:
                                run.violate("D6", f"{m.name}:os.walk:{var}:unsorted", m, lp,
                                            f"`{var}` from os.walk is consumed without being sorted: page order / toctree order depends on the file system")
                            elif consuming and sorts:
                                first_sort = min(s.lineno for s in sorts)
                                early = [u for u in consuming if u.lineno < first_sort]
                                if early:
                                    run.violate("D6", f"{m.name}:os.walk:{var}:used-before-sort", m, early[0],
                                                f"`{var}` from os.walk is used at line {early[0].lineno} before it is sorted")
    run.floor("D6", nloops, 10, "loops in the generator")


def _is_receiver_of(scope: ast.AST, name: ast.Name, methods: tuple) -> bool:
    for x in ast.walk(scope):
        if isinstance(x, ast.Call) and isinstance(x.func, ast.Attribute) and x.func.value is name and x.func.attr in methods:
            return True
    return False


# ------------------------------------------------------------------------------------------ D7


def _d7(run: Run, w: World) -> None:
    f = Fn(w, DOCS + "patch", "patch_sympy_evaluate")
    ins = [(n, c) for n in f.cfg.stmt_nodes() for c in node_calls(n) if isinstance(c.func, ast.Attribute) and c.func.attr == "insert"
           and len(c.args) == 2 and isinstance(c.args[1], ast.Name)]
    dis = [(n, c) for n, c in ins if c.args[1].id == "_DISABLE_NODE"]
    ena = [(n, c) for n, c in ins if c.args[1].id == "_ENABLE_NODE"]
    run.require(bool(dis), "patch_sympy_evaluate no longer inserts _DISABLE_NODE")
    for n, c in dis:
        run.ob("D7", f"disable-insert@{f.line(c)}")
        # every path from the disable insertion to the next iteration / exit passes an enable insertion
        loop = next((t for t, br in reversed(n.lexical_tests) if t.kind == "for"), None)
        paired = False
        for en, ec in ena:
            same_loop = loop is not None and any(t is loop for t, _ in en.lexical_tests)
            if same_loop and en.lexical_tests == n.lexical_tests and en.id > n.id:
                paired = True
        if not paired:
            run.violate("D7", f"{f.qual}:unpaired-disable", f.mod, c,
                        "an insertion of the evaluation-disable node is not followed, under the same conditions of the same loop iteration, by an "
                        "insertion of the reset node: SymPy stays in evaluate=False after generation")
    # the nodes call the right functions
    m = f.mod
    consts = {}
    for s in m.tree.body:
        if isinstance(s, ast.Assign) and len(s.targets) == 1 and isinstance(s.targets[0], ast.Name):
            consts[s.targets[0].id] = s.value
    for nm, fn_name in (("_DISABLE_NODE", "disable_sympy_evaluation"), ("_ENABLE_NODE", "reset_sympy_evaluation")):
        run.ob("D7", nm)
        v = consts.get(nm)
        names = [x.value for x in ast.walk(v) if isinstance(x, ast.Constant) and isinstance(x.value, str)] if v is not None else []
        if fn_name not in names:
            run.violate("D7", f"{m.name}:{nm}", m, v or m.tree, f"{nm} does not call {fn_name}")
    # processors: reset stores True
    p = run.src.need("symplyphysics.core.processors")
    g = Fn(w, "symplyphysics.core.processors", "reset_sympy_evaluation")
    stores = [n for n in g.cfg.stmt_nodes() if isinstance(n.ast, ast.Assign) and any(dotted(t) == "global_parameters.evaluate" for t in n.ast.targets)]
    run.ob("D7", "reset-stores-default")
    if not stores or not all(g.cfg.dominated_by(x, lambda y: y in stores) for x in g.cfg.normal_exits()):
        run.violate("D7", f"{g.qual}:no-store", p, g.fn, "reset_sympy_evaluation does not store global_parameters.evaluate on every path")
    uses_global = any(isinstance(x, ast.Global) for x in ast.walk(p.tree))
    for st in stores:
        v = st.ast.value
        val = None
        if isinstance(v, ast.Constant):
            val = v.value
        elif isinstance(v, ast.Name):
            defs = [s for s in p.tree.body if isinstance(s, (ast.Assign, ast.AnnAssign)) and any(isinstance(t, ast.Name) and t.id == v.id for t in (s.targets if isinstance(s, ast.Assign) else [s.target]))]
            if len(defs) == 1 and isinstance(defs[0].value, ast.Constant) and not uses_global:
                val = defs[0].value.value
            elif uses_global:
                run.skip("D7", f"{p.rel}:{st.ast.lineno}", "reset value is a module global written through `global`: relies on disable/reset pairing")
                continue
        if val is not True:
            run.violate("D7", f"{g.qual}:value", p, st.ast, f"reset_sympy_evaluation stores {norm(v)} (resolved to {val!r}), not the default True")
    # nobody else writes the flag in the generator / catalogue
    for m2 in run.src.mods.values():
        if m2.name == "symplyphysics.core.processors":
            continue
        for x in ast.walk(m2.tree):
            if isinstance(x, (ast.Assign, ast.AugAssign)):
                tg = x.targets if isinstance(x, ast.Assign) else [x.target]
                for t in tg:
                    if isinstance(t, ast.Attribute) and t.attr == "evaluate" and (dotted(t.value) or "").endswith("global_parameters"):
                        run.ob("D7", f"{m2.name}:evaluate-store")
                        run.violate("D7", f"{m2.name}:evaluate-store:{norm(x, 60)}", m2, x, "global_parameters.evaluate is written outside core/processors.py")
    run.sample({"rule": "D7", "disable_insertions": len(dis), "enable_insertions": len(ena)})
