"""C14 - coordinate-free vector algebra: rewrite rules, permutation signs and derivative rules are identities in R^3 (E4)."""
from __future__ import annotations

import ast
import itertools
from fractions import Fraction

from ..core import Run, AnalysisError, dotted, norm
from ..alg import T, num, var, op, normalize, Rat, same
from ..vecreader import VecReader, gvec, t_dot, t_cross, t_mixed, t_norm
from ..flow import monomial

EXPLANATION = (
    "The product-specific rewrite rules of core/experimental/vectors are a finite table. R1: for every branch of "
    "VectorCross._eval_vector_dot / _eval_vector_cross the (pattern => replacement) pair is read from the branch condition, the "
    "destructuring of lhs.args / rhs.args and the return expression, expanded into 3*k component indeterminates and decided as a "
    "polynomial identity (dot(cross(a,b),cross(c,d)), cross(cross(a,b),c), ... are then correct for EVERY assignment of real "
    "3-vectors); likewise the shortcuts dot(v,v) -> norm(v)^2, cross(v,v) -> 0, mixed with a repeated argument -> 0 and the "
    "expansion mixed(u,v,w) -> dot(u, cross(v,w)). R2: sort_with_sign returns Permutation(indices).signature() and 0 on repeats; "
    "the accumulation in each product multiplies by that sign exactly for the antisymmetric products (cross, mixed) and not for "
    "dot. the default ordering key is the builtin id (equal keys = the same object). "
    "R4: every call of an operand hook, also through getattr and through helpers, passes (left operand, right operand) of the product being evaluated. "
    "R3: each _eval_derivative equals the formal derivative of the product for generic vector functions of the parameter "
    "(product rule; norm: dot(v, dv)/norm(v)). Not decided: the multilinear expansion engine (_ordered_mul / into_terms / "
    "split_factor run SymPy's expand on arbitrary trees), termination inside SymPy, id()-order independence beyond R2. "
    "R5 (termination of this module's own recursion): every VectorExpr subclass is accepted by is_atomic_vector or defines both operand hooks "
    "(otherwise a product re-evaluates itself with unchanged operands), and every .diff() inside an _eval_derivative is applied to a strict "
    "sub-expression, to self.doit() behind a class test, or to a freshly built product from which the own class is not reachable.")
ASSUMPTIONS = ["vectors are real 3-vectors; SymPy's Permutation.signature is the permutation sign",
               "value preservation of the expansion engine itself is not decided"]
TRUSTED = ["sympy.combinatorics.Permutation.signature", "python ast", "sa/alg.py normal form"]

MOD = "symplyphysics.core.experimental.vectors"
MISC = "symplyphysics.core.experimental.miscellaneous"


def _cls(mod, name: str) -> ast.ClassDef:
    c = next((s for s in mod.tree.body if isinstance(s, ast.ClassDef) and s.name == name), None)
    if c is None:
        raise AnalysisError(f"C14: class {name} not found")
    return c


def _meth(c: ast.ClassDef, name: str) -> ast.FunctionDef:
    f = next((s for s in c.body if isinstance(s, ast.FunctionDef) and s.name == name), None)
    if f is None:
        raise AnalysisError(f"C14: {c.name}.{name} not found")
    return f


def _eval_bool(t: ast.AST, env: dict) -> bool:
    if isinstance(t, ast.Name) and t.id in env:
        return env[t.id]
    if isinstance(t, ast.UnaryOp) and isinstance(t.op, ast.Not):
        return not _eval_bool(t.operand, env)
    if isinstance(t, ast.BoolOp):
        vals = [_eval_bool(v, env) for v in t.values]
        return all(vals) if isinstance(t.op, ast.And) else any(vals)
    if isinstance(t, ast.Call) and dotted(t.func) == "isinstance" and len(t.args) == 2 and dotted(t.args[1]) == "VectorCross" and dotted(t.args[0]) in ("lhs", "rhs"):
        return env[f"{dotted(t.args[0])}_is_cross_direct"]
    raise AnalysisError(f"C14: branch condition `{norm(t)}` is outside the decidable class")


def _eq(a, b) -> bool:
    if isinstance(a, list) != isinstance(b, list):
        return False
    if isinstance(a, list):
        return len(a) == len(b) and all(same(normalize(x), normalize(y)) for x, y in zip(a, b))
    return same(normalize(a), normalize(b))


def _show(x) -> str:
    if isinstance(x, list):
        return "[" + ", ".join(repr(normalize(t)) for t in x) + "]"
    return repr(normalize(x))


class _Vec:
    """a vector of R^3 by components; `cross_of` = (a, b) when the object is the unevaluated VectorCross(a, b)"""

    def __init__(self, comps: list, cross_of=None):
        self.comps, self.cross_of = list(comps), cross_of


def _r1_rules(run: Run, mod, cross_cls: ast.ClassDef) -> None:
    """the operand hooks of VectorCross are EVALUATED for the four combinations (operand is / is not itself a cross product) on generic component vectors"""
    from ..pyreader import PyReader, Raised

    class R(PyReader):

        def hook_attr(self, base, attr, n):
            if isinstance(base, _Vec) and attr == "args" and base.cross_of is not None:
                return list(base.cross_of)
            return NotImplemented

        def hook_unary(self, o, v, n):
            if isinstance(v, _Vec) and isinstance(o, ast.USub):
                return _Vec([op("neg", x) for x in v.comps])
            return NotImplemented

        def hook_binop(self, o, l, r, n):
            lv, rv = isinstance(l, _Vec), isinstance(r, _Vec)
            if not (lv or rv):
                return NotImplemented
            if isinstance(o, ast.Mult) and lv != rv:
                s_, v_ = (r, l) if lv else (l, r)
                return _Vec([op("mul", self.scalar(s_, n), x) for x in v_.comps])
            if isinstance(o, ast.Div) and lv and not rv:
                return _Vec([op("div", x, self.scalar(r, n)) for x in l.comps])
            if isinstance(o, (ast.Add, ast.Sub)) and lv and rv:
                return _Vec([op("add" if isinstance(o, ast.Add) else "sub", a_, b_) for a_, b_ in zip(l.comps, r.comps)])
            self.fail(n, "vector arithmetic outside the decidable class")

        def hook_call(self, n, env, fns):
            name = (dotted(n.func) or "").split(".")[-1]
            if name == "cls":
                name = "VectorCross"
            if name == "isinstance" and len(n.args) == 2:
                v = self.ev(n.args[0], env, fns)
                names = self.class_names(n.args[1])
                if isinstance(v, _Vec) and names == ["VectorCross"]:
                    return v.cross_of is not None
                self.fail(n, "isinstance outside the modelled classes")
            if name in ("VectorDot", "VectorCross", "VectorMixedProduct", "VectorNorm") and name not in self.functions:
                vals = [self.ev(a, env, fns) for a in n.args]
                if not all(isinstance(v, _Vec) for v in vals):
                    self.fail(n, "product of non-vectors")
                cs = [v.comps for v in vals]
                if name == "VectorDot" and len(cs) == 2:
                    return t_dot(*cs)
                if name == "VectorCross" and len(cs) == 2:
                    return _Vec(t_cross(*cs), cross_of=(vals[0], vals[1]))
                if name == "VectorMixedProduct" and len(cs) == 3:
                    return t_mixed(*cs)
                if name == "VectorNorm" and len(cs) == 1:
                    return t_norm(cs[0])
                self.fail(n, "arity")
            return NotImplemented

    methods = ast.Module(body=[x for x in mod.tree.body if not isinstance(x, ast.ClassDef)] + [x for x in cross_cls.body if isinstance(x, ast.FunctionDef)], type_ignores=[])
    for mname, product, label in (("_eval_vector_dot", t_dot, "dot"), ("_eval_vector_cross", t_cross, "cross")):
        fn = _meth(cross_cls, mname)
        nrules = 0
        for lc, rc in itertools.product((True, False), repeat=2):
            A, B, C_, D = (_Vec(gvec(x)) for x in "abcd")
            L = _Vec(t_cross(A.comps, B.comps), cross_of=(A, B)) if lc else _Vec(gvec("L"))
            Rv = _Vec(t_cross(C_.comps, D.comps), cross_of=(C_, D)) if rc else _Vec(gvec("R"))
            rd = R(methods, f"VectorCross.{mname}[lhs_cross={lc},rhs_cross={rc}]", depth_limit=8)
            pat = f"{label}({'cross(a, b)' if lc else 'L'}, {'cross(c, d)' if rc else 'R'})"
            try:
                got = rd.call(mname, ["CLS", L, Rv])
            except Raised as r_:
                run.ob("R1", f"{mname}:{pat}")
                run.violate("R1", f"{MOD}:VectorCross.{mname}:{pat}", mod, fn, f"the operand hook raises {r_.exc} for {pat}")
                continue
            if got is None:
                continue  # no rewrite for this pattern
            want = product(L.comps, Rv.comps)
            nrules += 1
            run.ob("R1", f"{mname}:{pat}")
            gotv = got.comps if isinstance(got, _Vec) else got
            if not _eq(gotv, want):
                run.violate("R1", f"{MOD}:VectorCross.{mname}:{pat}", mod, fn,
                            f"the rewrite of {pat} is not an identity in R^3 (differs from the component expansion of {pat})")
            else:
                run.sample({"rule": pat, "identity": True})
        if nrules < 3:
            raise AnalysisError(f"C14: only {nrules} rewrite rules found in {mname}")


def _accumulations(fn: ast.FunctionDef):
    """the `for sign, tuple_to_factor in sign_to_mapping.items():` loop of a product's __new__"""
    for s in ast.walk(fn):
        if isinstance(s, ast.For) and isinstance(s.target, ast.Tuple) and len(s.target.elts) == 2 and isinstance(s.target.elts[0], ast.Name) \
                and s.target.elts[0].id == "sign" and isinstance(s.iter, ast.Call) and isinstance(s.iter.func, ast.Attribute) and s.iter.func.attr == "items":
            return s
    return None


def _r2_products(run: Run, mod) -> None:
    table = [("VectorDot", False, 2), ("VectorCross", True, 2), ("VectorMixedProduct", True, 3)]
    for cname, antisym, arity in table:
        c = _cls(mod, cname)
        fn = _meth(c, "__new__")
        loop = _accumulations(fn)
        if loop is None:
            raise AnalysisError(f"C14: {cname}.__new__: the sign loop was not found")
        zero_branch = None
        rest = []
        for s in loop.body:
            if isinstance(s, ast.If) and isinstance(s.test, ast.Compare) and dotted(s.test.left) == "sign" and isinstance(s.test.ops[0], ast.Eq) \
                    and isinstance(s.test.comparators[0], ast.Constant) and s.test.comparators[0].value == 0:
                zero_branch = s
            else:
                rest.append(s)
        run.ob("R2", f"{cname}:sign==0")
        if zero_branch is None:
            run.violate("R2", f"{MOD}:{cname}.__new__:sign0", mod, loop, f"{cname}.__new__ has no `sign == 0` case: products with a repeated vector are not reduced to their special value")
        else:
            adds = [x for x in ast.walk(zero_branch) if isinstance(x, ast.AugAssign) and dotted(x.target) == "result"]
            if antisym:
                if adds or not any(isinstance(x, ast.Continue) for x in zero_branch.body):
                    run.violate("R2", f"{MOD}:{cname}.__new__:sign0", mod, zero_branch, f"{cname} with a repeated argument must contribute 0, but the sign == 0 branch adds to the result")
            else:
                # dot(v, v) -> norm(v)^2 * factor
                ok = False
                for inner in [x for x in ast.walk(zero_branch) if isinstance(x, ast.For)]:
                    tg = inner.target
                    if isinstance(tg, ast.Tuple) and len(tg.elts) == 2 and isinstance(tg.elts[0], ast.Tuple) and isinstance(tg.elts[0].elts[0], ast.Name):
                        vname, fname = tg.elts[0].elts[0].id, dotted(tg.elts[1])
                        v = gvec("v")
                        rd = VecReader({vname: v, fname: var("k"), "result": num(0)}, cls=cname, where=f"{cname}.__new__ sign==0")
                        try:
                            for st in inner.body:
                                if isinstance(st, ast.Assign):
                                    rd.env[st.targets[0].id] = rd.ev(st.value)
                                elif isinstance(st, ast.AugAssign) and dotted(st.target) == "result" and isinstance(st.op, ast.Add):
                                    got = rd.ev(st.value)
                                    if same(normalize(got), normalize(op("mul", t_dot(v, v), var("k")))):
                                        ok = True
                        except AnalysisError:
                            ok = False
                if not ok:
                    run.violate("R2", f"{MOD}:{cname}.__new__:sign0", mod, zero_branch, "the sign == 0 branch of VectorDot does not add norm(v)^2 * factor for dot(v, v)")
        # the general branch
        run.ob("R2", f"{cname}:sign-factor")
        found = False
        for inner in [x for s in rest for x in ast.walk(s) if isinstance(x, ast.For)]:
            tg = inner.target
            if not (isinstance(tg, ast.Tuple) and len(tg.elts) == 2):
                continue
            fname = dotted(tg.elts[1])
            vecs_t = tg.elts[0]
            names = None
            if isinstance(vecs_t, ast.Tuple) and all(isinstance(e, ast.Name) for e in vecs_t.elts):
                names = [e.id for e in vecs_t.elts]
            gv = [gvec(chr(ord("p") + i)) for i in range(arity)]
            for st in ast.walk(inner):
                if isinstance(st, ast.AugAssign) and dotted(st.target) == "result" and isinstance(st.op, ast.Add):
                    found = True
                    m = monomial(st.value, lambda e: e.id if isinstance(e, ast.Name) else None)
                    if m is None:
                        raise AnalysisError(f"C14: {cname}.__new__: accumulated term `{norm(st.value)}` is not a monomial")
                    exps = {k: v for k, v in m.items() if k != "#"}
                    prodvars = [k for k in exps if k not in ("sign", fname)]
                    want_sign = Fraction(1) if antisym else Fraction(0)
                    if exps.get("sign", Fraction(0)) != want_sign or exps.get(fname, Fraction(0)) != 1 or len(prodvars) != 1 or exps[prodvars[0]] != 1 or m.get("#", Fraction(1)) != 1:
                        run.violate("R2", f"{MOD}:{cname}.__new__:accumulation", mod, st,
                                    f"{cname}.__new__ accumulates `{norm(st.value)}`; an {'anti' if antisym else ''}symmetric product of the sorted operands must be "
                                    f"multiplied by factor{' * sign' if antisym else ' (and not by sign)'} exactly once")
                        continue
                    # the product variable: every definition is the class's own product of the sorted vectors, in order
                    pv = prodvars[0]
                    defs = [d for d in ast.walk(inner) if isinstance(d, ast.Assign) and len(d.targets) == 1 and dotted(d.targets[0]) == pv]
                    unpack = [d for d in ast.walk(inner) if isinstance(d, ast.Assign) and isinstance(d.targets[0], ast.Tuple) and dotted(d.value) == dotted(vecs_t)]
                    for d in defs:
                        env = {}
                        if names:
                            env.update(dict(zip(names, gv)))
                        else:
                            env[dotted(vecs_t)] = gv
                        for u in unpack:
                            env.update(dict(zip([e.id for e in u.targets[0].elts], gv)))
                        rd = VecReader(env, cls=cname, where=f"{cname}.__new__ product term")
                        val = d.value
                        # cls(*vectors, evaluate=False)
                        if isinstance(val, ast.Call) and any(isinstance(a, ast.Starred) for a in val.args):
                            starred = [a for a in val.args if isinstance(a, ast.Starred)]
                            if len(val.args) == 1 and dotted(starred[0].value) == dotted(vecs_t) and dotted(val.func) in ("cls", cname):
                                got = {"VectorDot": t_dot, "VectorCross": t_cross, "VectorMixedProduct": t_mixed}[cname](*gv)
                            else:
                                raise AnalysisError(f"C14: {cname}.__new__: `{norm(val)}` not understood")
                        else:
                            got = rd.ev(val)
                        want = {"VectorDot": t_dot, "VectorCross": t_cross, "VectorMixedProduct": t_mixed}[cname](*gv)
                        run.ob("R2", f"{cname}:term:{norm(val, 50)}")
                        if not _eq(got, want):
                            run.violate("R2", f"{MOD}:{cname}.__new__:term:{norm(val, 60)}", mod, d,
                                        f"the term `{norm(val, 60)}` built for the sorted operands is not {cname} of those operands in that order")
        if not found:
            raise AnalysisError(f"C14: {cname}.__new__: no accumulation into `result` found")


def _r2_sort(run: Run) -> None:
    """sort_with_sign touches its elements only through comparisons and equality, so its behaviour on sequences of at most three operands (the products have
    at most three) is decided by evaluating it on every order pattern: all sequences over {0, 1, 2} of length 0..3, with and without a key."""
    import itertools
    from ..pyreader import PyReader, Raised
    m = run.src.need(MISC)
    fn = next((s for s in m.tree.body if isinstance(s, ast.FunctionDef) and s.name == "sort_with_sign"), None)
    if fn is None:
        raise AnalysisError("C14: sort_with_sign not found")

    class R(PyReader):

        def classes(self, v):
            return {"list", "Sequence", "Iterable"} if isinstance(v, list) else ({"int"} if isinstance(v, int) else set())

        def hook_call(self, n, env, fns):
            name = (dotted(n.func) or "").split(".")[-1]
            if name == "isinstance" and len(n.args) == 2:
                return bool(self.classes(self.ev(n.args[0], env, fns)) & set(self.class_names(n.args[1])))
            if name == "sorted" and len(n.args) == 1:
                seq = self.ev(n.args[0], env, fns)
                kf = next((self.ev(k.value, env, fns) for k in n.keywords if k.arg == "key"), None)
                rev = next((self.ev(k.value, env, fns) for k in n.keywords if k.arg == "reverse"), False)
                if isinstance(seq, list) and all(isinstance(x, int) for x in seq):
                    keyf = (lambda x: x) if kf is None else (lambda x: self.apply_value(kf, [x], n, fns))
                    return sorted(seq, key=keyf, reverse=bool(rev))
                self.fail(n, "sorted() of a non-concrete sequence")
            if name == "set" and len(n.args) == 1:
                seq = self.ev(n.args[0], env, fns)
                if isinstance(seq, list):
                    return list(dict.fromkeys(seq))
            if name == "Permutation" and len(n.args) == 1:
                return ("permutation", list(self.ev(n.args[0], env, fns)))
            if isinstance(n.func, ast.Name) and n.func.id in env and env[n.func.id] == "NEGATE" and len(n.args) == 1:
                return -self.ev(n.args[0], env, fns)
            return NotImplemented

        def hook_method(self, base, attr, args, kwargs, n):
            if isinstance(base, list) and attr == "index" and len(args) == 1:
                if args[0] in base:
                    return base.index(args[0])
                raise Raised("ValueError", getattr(n, "lineno", 0))
            if isinstance(base, list) and attr == "count" and len(args) == 1:
                return base.count(args[0])
            if isinstance(base, tuple) and base and base[0] == "permutation" and attr in ("signature", "parity") and not args:
                p_ = base[1]
                if sorted(p_) != list(range(len(p_))):
                    raise Raised("ValueError", getattr(n, "lineno", 0))
                inv = sum(1 for a_ in range(len(p_)) for b_ in range(a_ + 1, len(p_)) if p_[a_] > p_[b_])
                return (1 if inv % 2 == 0 else -1) if attr == "signature" else inv % 2
            return NotImplemented

    def want(seq, neg):
        keyed = [-x for x in seq] if neg else list(seq)
        if len(set(keyed)) != len(keyed):
            sign = 0
        else:
            order = sorted(range(len(seq)), key=lambda i_: keyed[i_])
            inv = sum(1 for a_ in range(len(order)) for b_ in range(a_ + 1, len(order)) if order[a_] > order[b_])
            sign = 1 if inv % 2 == 0 else -1
        return sign, sorted(seq, key=(lambda x: -x) if neg else None)

    bad = None
    for ln in range(4):
        for seq in itertools.product(range(3), repeat=ln):
            for neg in (False, True):
                run.ob("R2", f"sort_with_sign:{list(seq)}{':key' if neg else ''}", nontrivial=False)
                rd = R(m.tree, "miscellaneous.py")
                try:
                    got = rd.call("sort_with_sign", [list(seq)] + (["NEGATE"] if neg else []))
                except Raised as r:
                    got = r
                ws, wl = want(list(seq), neg)
                ok = isinstance(got, list) and len(got) == 2 and got[0] == ws and isinstance(got[1], list) and (ws == 0 and sorted(got[1]) == sorted(wl) and
                                                                                                             [(-x if neg else x) for x in got[1]] == sorted((-x if neg else x) for x in got[1])
                                                                                                             or got[1] == wl)
                if not ok and bad is None:
                    bad = (list(seq), neg, got, (ws, wl))
    run.ob("R2", "sort_with_sign")
    if bad is not None:
        seq, neg, got, (ws, wl) = bad
        run.violate("R2", f"{MISC}:sort_with_sign:sign", m, fn,
                    f"sort_with_sign({seq}{', key=negate' if neg else ''}) evaluates to {('raises ' + got.exc) if isinstance(got, Raised) else got!r}; the signature of the sorting permutation "
                    f"(0 for repeated elements) and the sorted list are ({ws}, {wl})")


def _r2_key(run: Run, mod) -> None:
    """operands are ordered by object identity: equal keys must mean 'the same vector twice'"""
    fn = next((s for s in mod.tree.body if isinstance(s, ast.FunctionDef) and s.name == "_ordered_mul"), None)
    if fn is None:
        raise AnalysisError("C14: _ordered_mul not found")
    run.ob("R2", "_ordered_mul:identity-key")
    calls = [c for c in ast.walk(fn) if isinstance(c, ast.Call) and dotted(c.func) == "sort_with_sign"]
    if not calls:
        raise AnalysisError("C14: _ordered_mul no longer calls sort_with_sign")
    from ..flow import CFG, node_of
    cfg = CFG(fn)
    for c in calls:
        k = next((kw_.value for kw_ in c.keywords if kw_.arg == "key"), c.args[1] if len(c.args) > 1 else None)
        n = node_of(cfg, c)
        sl = cfg.slice(n, [k]) if (k is not None and n is not None) else None
        ok = sl is not None and sl.params <= {"key"} and sl.free == {"id"} and not sl.calls
        if not ok:
            run.violate("R2", f"{MOD}:_ordered_mul:key", mod, c,
                        f"the operands of a product are ordered by `{norm(k, 40) if k is not None else 'natural order'}` (default derived from {sorted((sl.free | sl.calls) if sl else [])}); only "
                        f"object identity `id` guarantees that equal keys mean the same vector - two distinct vectors with equal keys collapse (cross -> 0, dot -> norm^2)")


def _r3(run: Run, mod) -> None:
    t = ("t", )
    # binary products
    for cname, product in (("VectorDot", t_dot), ("VectorCross", t_cross)):
        c = _cls(mod, cname)
        fn = _meth(c, "_eval_derivative")
        L, R = gvec("L", t), gvec("R", t)
        body = [s for s in fn.body if not (isinstance(s, ast.If) and any(isinstance(x, ast.Call) and dotted(x.func) == "is_vector_expr" for x in ast.walk(s.test)))]
        rd = VecReader({"self.lhs": L, "self.rhs": R}, cls=cname, where=f"{cname}._eval_derivative", diff_var="t")

        class _R(VecReader):
            pass
        env = {}
        stmts = []
        for s in body:
            if isinstance(s, ast.Assign) and isinstance(s.value, ast.Attribute) and dotted(s.value) in ("self.lhs", "self.rhs"):
                env[s.targets[0].id] = L if dotted(s.value) == "self.lhs" else R
            elif isinstance(s, ast.Assign) and dotted(s.value) == "self.args" and isinstance(s.targets[0], ast.Tuple):
                for e, v in zip(s.targets[0].elts, (L, R)):
                    env[e.id] = v
            elif isinstance(s, ast.Expr) and isinstance(s.value, ast.Constant):
                continue
            else:
                stmts.append(s)
        rd = VecReader(env, cls=cname, where=f"{cname}._eval_derivative", diff_var="t")
        got = rd.run(stmts)
        prod = product(L, R)
        want = [op("diff", x, var("t")) for x in prod] if isinstance(prod, list) else op("diff", prod, var("t"))
        run.ob("R3", f"{cname}._eval_derivative")
        if got is None or not _eq(got, want):
            run.violate("R3", f"{MOD}:{cname}._eval_derivative", mod, fn, f"the derivative rule of {cname} is not the product rule d[P(a,b)] = P(da,b) + P(a,db)")
        else:
            run.sample({"rule": f"{cname}._eval_derivative", "product_rule": True})
    # mixed product
    c = _cls(mod, "VectorMixedProduct")
    fn = _meth(c, "_eval_derivative")
    a, b, cc = gvec("a", t), gvec("b", t), gvec("c", t)
    env = {}
    stmts = []
    for s in fn.body:
        if isinstance(s, ast.If) and any(isinstance(x, ast.Call) and dotted(x.func) == "is_vector_expr" for x in ast.walk(s.test)):
            continue
        if isinstance(s, ast.Assign) and dotted(s.value) == "self.args" and isinstance(s.targets[0], ast.Tuple) and len(s.targets[0].elts) == 3:
            for e, v in zip(s.targets[0].elts, (a, b, cc)):
                env[e.id] = v
        elif isinstance(s, ast.Expr) and isinstance(s.value, ast.Constant):
            continue
        else:
            stmts.append(s)
    rd = VecReader(env, cls="VectorMixedProduct", where="VectorMixedProduct._eval_derivative", diff_var="t")
    got = rd.run(stmts)
    run.ob("R3", "VectorMixedProduct._eval_derivative")
    if got is None or not _eq(got, op("diff", t_mixed(a, b, cc), var("t"))):
        run.violate("R3", f"{MOD}:VectorMixedProduct._eval_derivative", mod, fn, "the derivative of the mixed product is not the derivative of dot(a, cross(b, c))")
    # norm
    c = _cls(mod, "VectorNorm")
    fn = _meth(c, "_eval_derivative")
    v = gvec("v", t)
    rets = [s for s in fn.body if isinstance(s, ast.Return)]
    run.ob("R3", "VectorNorm._eval_derivative")
    ok = False
    if rets:
        env = {"done": t_norm(v)}
        for s in fn.body:
            if isinstance(s, (ast.Assign, ast.AnnAssign)):
                tgt = s.targets[0] if isinstance(s, ast.Assign) else s.target
                if isinstance(tgt, ast.Name) and norm(s.value) == "done.args[0]":
                    env[tgt.id] = v
        rd = VecReader(env, cls="VectorNorm", where="VectorNorm._eval_derivative", diff_var="t")
        try:
            got = rd.ev(rets[-1].value)
            ok = _eq(got, op("diff", t_norm(v), var("t")))
        except AnalysisError:
            ok = False
    if not ok:
        run.violate("R3", f"{MOD}:VectorNorm._eval_derivative", mod, fn, "the derivative of norm(v) is not dot(v, dv) / norm(v)")


HOOKS = ("_eval_vector_dot", "_eval_vector_cross")


def _names(e) -> set:
    return {x.id for x in ast.walk(e) if isinstance(x, ast.Name)}


def _operand_worlds(fn: ast.FunctionDef, seed_worlds: list) -> list:
    """[(world, hook call)] - for every call of an operand hook inside `fn`, the possible assignments name -> operand position
    (0 = left, 1 = right). Positions start at 2-tuple unpackings of the operand pair and are carried through position-wise
    re-bindings (`lhs, rhs = lhs.doit(), rhs.doit()`) and loops over literal tuples of pairs."""
    out = []

    def pos_of(e, w):
        ps = {w.get(n) for n in _names(e) if n in w}
        return ps.pop() if len(ps) == 1 else None

    def hook_calls(st):
        for x in ast.walk(st):
            if isinstance(x, ast.Call) and len(x.args) == 2:
                f = x.func
                if isinstance(f, ast.Attribute) and f.attr in HOOKS:
                    yield x
                elif isinstance(f, ast.Call) and dotted(f.func) == "getattr" and len(f.args) == 2:
                    yield x

    def walk(body, worlds):
        for st in body:
            if isinstance(st, ast.Assign) and len(st.targets) == 1 and isinstance(st.targets[0], ast.Tuple) and len(st.targets[0].elts) == 2 \
                    and all(isinstance(e, ast.Name) for e in st.targets[0].elts):
                t0, t1 = (e.id for e in st.targets[0].elts)
                v = st.value
                for w in worlds:
                    if isinstance(v, ast.Tuple) and len(v.elts) == 2:
                        p0, p1 = pos_of(v.elts[0], w), pos_of(v.elts[1], w)
                        w[t0], w[t1] = p0, p1
                    elif (isinstance(v, ast.Call) and dotted(v.func) == "map" and len(v.args) == 2 and dotted(v.args[1]) in ("values", "args")) or dotted(v) in ("values", "args", "self.args"):
                        w[t0], w[t1] = 0, 1
                    else:
                        w[t0], w[t1] = None, None
            elif isinstance(st, ast.For) and isinstance(st.target, ast.Tuple) and len(st.target.elts) == 2 and isinstance(st.iter, ast.Tuple) \
                    and all(isinstance(e, ast.Tuple) and len(e.elts) == 2 for e in st.iter.elts):
                u, v = (e.id for e in st.target.elts)
                for pair in st.iter.elts:
                    ws = []
                    for w in worlds:
                        w2 = dict(w)
                        w2[u], w2[v] = pos_of(pair.elts[0], w), pos_of(pair.elts[1], w)
                        ws.append(w2)
                    walk(st.body, ws)
                continue
            for c in (hook_calls(st) if not isinstance(st, (ast.If, ast.For, ast.While, ast.With, ast.Try)) else
                      hook_calls(getattr(st, "test", None) or getattr(st, "iter", None) or ast.Pass())):
                for w in worlds:
                    out.append((dict(w), c))
            for blk in ("body", "orelse", "finalbody"):
                if isinstance(st, (ast.If, ast.For, ast.While, ast.With, ast.Try)) and getattr(st, blk, None):
                    walk(getattr(st, blk), [dict(w) for w in worlds] if isinstance(st, ast.If) else worlds)
    walk(fn.body, seed_worlds)
    return out


def _r4_hooks(run: Run, mod) -> None:
    """operand hooks are rewrite rules for product(lhs, rhs): whoever calls one passes (left operand, right operand) in that order"""
    fns = [f for f in ast.walk(mod.tree) if isinstance(f, ast.FunctionDef)]
    total = 0
    for fn in fns:
        direct = [x for x in ast.walk(fn) if isinstance(x, ast.Call) and ((isinstance(x.func, ast.Attribute) and x.func.attr in HOOKS and len(x.args) == 2)
                                                                           or (isinstance(x.func, ast.Call) and dotted(x.func.func) == "getattr" and len(x.args) == 2))]
        if not direct or any(g is not fn and any(y is direct[0] for y in ast.walk(g)) and any(g2 is g for g2 in ast.walk(fn)) for g in fns):
            continue
        params = [a.arg for a in fn.args.args]
        seeds = [{}]
        if fn.name not in ("__new__", "eval"):
            # a helper: operand positions come from its call sites
            seeds = []
            for caller in fns:
                for c in [x for x in ast.walk(caller) if isinstance(x, ast.Call) and dotted(x.func) == fn.name]:
                    for w, _ in _operand_worlds_at(caller, c):
                        seeds.append({p: (w.get(a.id) if isinstance(a, ast.Name) else None) for p, a in zip(params, c.args)})
            if not seeds:
                continue
        for w, c in _operand_worlds(fn, seeds):
            a0, a1 = c.args
            total += 1
            run.ob("R4", f"{fn.name}:{norm(c, 50)}")
            p0 = w.get(a0.id) if isinstance(a0, ast.Name) else None
            p1 = w.get(a1.id) if isinstance(a1, ast.Name) else None
            if (p0, p1) == (0, 1):
                continue
            if (p0, p1) == (1, 0):
                run.violate("R4", f"{MOD}:{fn.name}:hook-operands-swapped", mod, c,
                            f"`{norm(c, 70)}` in {fn.name} can pass (right operand, left operand) to an operand hook: the hook's rules rewrite product(first, second), so "
                            f"a x (b x c) is evaluated as (b x c) x a - the cross product changes sign")
            else:
                raise AnalysisError(f"C14: operands of hook call `{norm(c, 60)}` in {fn.name} cannot be traced to the product's operand pair")
    run.floor("R4", total, 4, "operand hook call sites")


def _operand_worlds_at(fn: ast.FunctionDef, call: ast.Call) -> list:
    """worlds (name -> operand position) in force where `call` (a helper call inside product constructor fn) is evaluated"""
    marker = call
    found = []

    def walk(body, worlds):
        for st in body:
            if isinstance(st, ast.Assign) and len(st.targets) == 1 and isinstance(st.targets[0], ast.Tuple) and len(st.targets[0].elts) == 2 \
                    and all(isinstance(e, ast.Name) for e in st.targets[0].elts):
                t0, t1 = (e.id for e in st.targets[0].elts)
                v = st.value
                for w in worlds:
                    if isinstance(v, ast.Tuple) and len(v.elts) == 2:
                        def pos_of(e, w=w):
                            ps = {w.get(n) for n in _names(e) if n in w}
                            return ps.pop() if len(ps) == 1 else None
                        w[t0], w[t1] = pos_of(v.elts[0]), pos_of(v.elts[1])
                    elif (isinstance(v, ast.Call) and dotted(v.func) == "map" and len(v.args) == 2 and dotted(v.args[1]) in ("values", "args")) or dotted(v) in ("values", "args", "self.args"):
                        w[t0], w[t1] = 0, 1
                    else:
                        w[t0], w[t1] = None, None
            if any(x is marker for x in ast.walk(st)) and not isinstance(st, (ast.If, ast.For, ast.While, ast.With, ast.Try)):
                found.extend(dict(w) for w in worlds)
            for blk in ("body", "orelse", "finalbody"):
                if isinstance(st, (ast.If, ast.For, ast.While, ast.With, ast.Try)) and getattr(st, blk, None):
                    walk(getattr(st, blk), worlds)
    walk(fn.body, [{}])
    return [(w, call) for w in found]


def _r5_termination(run: Run, mod) -> None:
    """differentiation and re-evaluation are well-founded"""
    classes = {c.name: c for c in mod.tree.body if isinstance(c, ast.ClassDef)}
    # ---- (a) every irreducible vector class is atomic for the products
    vec = {"VectorExpr"}
    changed = True
    while changed:
        changed = False
        for c in classes.values():
            if c.name not in vec and any(dotted(b) in vec for b in c.bases):
                vec.add(c.name)
                changed = True
    fn = next((f for f in mod.tree.body if isinstance(f, ast.FunctionDef) and f.name == "is_atomic_vector"), None)
    if fn is None:
        raise AnalysisError("C14: is_atomic_vector not found")
    atomic = set()
    for x in ast.walk(fn):
        if isinstance(x, ast.Call) and dotted(x.func) == "isinstance" and len(x.args) == 2:
            t = x.args[1]
            atomic |= {dotted(e) for e in (t.elts if isinstance(t, ast.Tuple) else [t])}
    for name in sorted(vec - {"VectorExpr"}):
        c = classes[name]
        run.ob("R5", f"irreducible-or-hooked:{name}")
        own = {f.name for f in c.body if isinstance(f, ast.FunctionDef)}
        hooked = set(HOOKS) <= own
        if name not in atomic and not hooked:
            run.violate("R5", f"{MOD}:{name}:neither-atomic-nor-reducible", mod, c,
                        f"{name} is a vector expression that is_atomic_vector does not accept and that defines no operand hooks: a product with such an operand "
                        f"re-evaluates itself (`cls(v, w)`) with unchanged operands - dot/cross/mixed products containing it never terminate")
    # ---- (b) _eval_derivative recurses on strict sub-expressions only
    may_build: dict = {}
    for c in classes.values():
        outs = set()
        for f in c.body:
            if isinstance(f, ast.FunctionDef) and f.name in ("__new__", "eval", "doit") + HOOKS:
                outs |= {dotted(x.func) for x in ast.walk(f) if isinstance(x, ast.Call) and dotted(x.func) in classes}
        may_build[c.name] = outs
    hook_builds = set()
    for c in classes.values():
        for f in c.body:
            if isinstance(f, ast.FunctionDef) and f.name in HOOKS:
                hook_builds |= {dotted(x.func) for x in ast.walk(f) if isinstance(x, ast.Call) and dotted(x.func) in classes}
    for c in classes.values():  # a constructor that calls the hooks may return whatever a hook builds
        if any(isinstance(x, ast.Attribute) and x.attr in HOOKS for f in c.body if isinstance(f, ast.FunctionDef) and f.name == "__new__" for x in ast.walk(f)):
            may_build[c.name] |= hook_builds

    def reach(a: str) -> set:
        seen, work = set(), [a]
        while work:
            k = work.pop()
            for n in may_build.get(k, ()):
                if n not in seen:
                    seen.add(n)
                    work.append(n)
        return seen

    from ..flow import CFG, conditions_for, stmt_of
    n = 0
    for c in classes.values():
        f = next((m_ for m_ in c.body if isinstance(m_, ast.FunctionDef) and m_.name == "_eval_derivative"), None)
        if f is None:
            continue
        for call in [x for x in ast.walk(f) if isinstance(x, ast.Call) and isinstance(x.func, ast.Attribute) and x.func.attr == "diff"]:
            n += 1
            recv = call.func.value
            run.ob("R5", f"{c.name}._eval_derivative:{norm(call, 40)}")
            why = None
            if (isinstance(recv, ast.Name) and recv.id == "self") or (isinstance(recv, ast.Call) and dotted(recv.func) == "super"):
                why = "calls diff() on the very expression being differentiated, which dispatches to this method again"
            elif isinstance(recv, ast.Call) and dotted(recv.func) in classes:
                y = dotted(recv.func)
                if c.name == y or c.name in reach(y):
                    why = f"differentiates a freshly built {y}(...), whose evaluation can produce a {c.name} again ({y} -> {sorted(reach(y))})"
            elif isinstance(recv, ast.Name):
                defs = [a for a in ast.walk(f) if isinstance(a, ast.Assign) and any(isinstance(t_, ast.Name) and t_.id == recv.id for t_ in a.targets)]
                for d in defs:
                    v = d.value
                    if isinstance(v, ast.Call) and isinstance(v.func, ast.Attribute) and v.func.attr in ("doit", "simplify", "expand") and dotted(v.func.value) == "self":
                        conds = conditions_for(f, stmt_of(f, call)) or []
                        guarded = any(not p and isinstance(t_, ast.Call) and dotted(t_.func) == "isinstance" and dotted(t_.args[0]) == recv.id and dotted(t_.args[1]) == c.name for t_, p in conds
                                      if not isinstance(t_, str)) or \
                            any(p and isinstance(t_, ast.UnaryOp) and isinstance(t_.op, ast.Not) and isinstance(t_.operand, ast.Call) and dotted(t_.operand.func) == "isinstance"
                                and dotted(t_.operand.args[0]) == recv.id and dotted(t_.operand.args[1]) == c.name for t_, p in conds if not isinstance(t_, str))
                        if not guarded:
                            why = f"differentiates `{norm(v, 30)}` without first making sure it is no longer a {c.name}"
            if why:
                run.violate("R5", f"{MOD}:{c.name}._eval_derivative:{norm(call, 50)}", mod, call,
                            f"{c.name}._eval_derivative {why}: differentiating such an expression with a parameter-dependent operand never terminates")
    run.floor("R5", n, 8, "diff() calls inside _eval_derivative methods")
    # scalar-valued products are ordinary commuting scalars for SymPy: without the declaration is_commutative is None and SymPy keeps
    # dot(a, b)*dot(c, d) and dot(c, d)*dot(a, b) apart, refuses to solve equations containing them, and orders factors by creation history
    for c in classes.values():
        if [dotted(b) for b in c.bases] != ["Expr"] or not any(isinstance(f_, ast.FunctionDef) and f_.name == "__new__" for f_ in c.body):
            continue
        run.ob("R2", f"{c.name}:commutative-scalar")
        decl = {t.id: a.value for a in c.body if isinstance(a, ast.Assign) for t in a.targets if isinstance(t, ast.Name)}
        v = decl.get("is_commutative")
        rl = decl.get("is_real")  # real -> complex -> commutative in SymPy's assumption system
        if not ((isinstance(v, ast.Constant) and v.value is True) or (isinstance(rl, ast.Constant) and rl.value is True)):
            run.violate("R2", f"{MOD}:{c.name}:is_commutative", mod, c,
                        f"{c.name} is a scalar-valued product but declares neither `is_commutative = True` nor `is_real = True` (which implies it): SymPy treats it as a non-commutative factor, so "
                        f"{c.name}(a, b)*x - x*{c.name}(a, b) does not cancel and the form of a result depends on the order the factors were written in")
    # differentiation enters these classes only through _eval_derivative (decided by R3/R5); any other SymPy differentiation hook would bypass both rules
    OTHER_HOOKS = ("_eval_derivative_n_times", "fdiff", "diff", "_eval_diff", "_eval_derivative_matrix_lines")
    for c in classes.values():
        extra = [f_.name for f_ in c.body if isinstance(f_, ast.FunctionDef) and f_.name in OTHER_HOOKS]
        if extra and c.name != "VectorDerivative":
            raise AnalysisError(f"C14: {c.name} defines the differentiation hook(s) {extra}, which this check does not decide (only _eval_derivative is evaluated): "
                                f"no verdict on the derivative clause")


def check(run: Run) -> None:
    run.rule("R1", "every product rewrite rule (pattern => replacement) is a polynomial identity in the components of generic real 3-vectors")
    run.rule("R2", "sort_with_sign returns the permutation signature (0 on repeats); products multiply by it exactly when antisymmetric; special values for repeated operands")
    run.rule("R3", "each _eval_derivative equals the formal derivative of the product for generic vector functions")
    mod = run.src.need(MOD)
    _r1_rules(run, mod, _cls(mod, "VectorCross"))
    _r2_sort(run)
    _r2_key(run, mod)
    _r2_products(run, mod)
    _r3(run, mod)
    run.rule("R4", "operand hooks (_eval_vector_dot/_eval_vector_cross) are always called with (left operand, right operand) of the product being evaluated")
    _r4_hooks(run, mod)
    run.rule("R5", "termination: every irreducible vector class is atomic for the products (or supplies operand hooks), and each _eval_derivative "
             "differentiates strict sub-expressions only - never itself, nor a freshly built product whose evaluation can return the same class")
    _r5_termination(run, mod)
