"""C14 - coordinate-free vector algebra: rewrite rules, permutation signs and derivative rules are identities in R^3 (E4)."""
from __future__ import annotations

import ast
import itertools
from fractions import Fraction

from ..core import Run, AnalysisError, dotted, norm
from ..alg import T, num, var, op, normalize, Rat, same
from ..vecreader import VecReader, gvec, t_dot, t_cross, t_mixed, t_norm
from ..flow import monomial

EXPLANATION = (
    "The product-specific rewrite rules of core/experimental/vectors are a finite table. R1: for every branch of "
    "VectorCross._eval_vector_dot / _eval_vector_cross the (pattern => replacement) pair is read from the branch condition, the "
    "destructuring of lhs.args / rhs.args and the return expression, expanded into 3*k component indeterminates and decided as a "
    "polynomial identity (dot(cross(a,b),cross(c,d)), cross(cross(a,b),c), ... are then correct for EVERY assignment of real "
    "3-vectors); likewise the shortcuts dot(v,v) -> norm(v)^2, cross(v,v) -> 0, mixed with a repeated argument -> 0 and the "
    "expansion mixed(u,v,w) -> dot(u, cross(v,w)). R2: sort_with_sign returns Permutation(indices).signature() and 0 on repeats; "
    "the accumulation in each product multiplies by that sign exactly for the antisymmetric products (cross, mixed) and not for "
    "dot. the default ordering key is the builtin id (equal keys = the same object). "
    "R4: every call of an operand hook, also through getattr and through helpers, passes (left operand, right operand) of the product being evaluated. "
    "R3: each _eval_derivative equals the formal derivative of the product for generic vector functions of the parameter "
    "(product rule; norm: dot(v, dv)/norm(v)). Not decided: the multilinear expansion engine (_ordered_mul / into_terms / "
    "split_factor run SymPy's expand on arbitrary trees), termination inside SymPy, id()-order independence beyond R2. "
    "R5 (termination of this module's own recursion): every VectorExpr subclass is accepted by is_atomic_vector or defines both operand hooks "
    "(otherwise a product re-evaluates itself with unchanged operands), and every .diff() inside an _eval_derivative is applied to a strict "
    "sub-expression, to self.doit() behind a class test, or to a freshly built product from which the own class is not reachable.")
ASSUMPTIONS = ["vectors are real 3-vectors; SymPy's Permutation.signature is the permutation sign",
               "value preservation of the expansion engine itself is not decided"]
TRUSTED = ["sympy.combinatorics.Permutation.signature", "python ast", "sa/alg.py normal form"]

MOD = "symplyphysics.core.experimental.vectors"
MISC = "symplyphysics.core.experimental.miscellaneous"


def _cls(mod, name: str) -> ast.ClassDef:
    c = next((s for s in mod.tree.body if isinstance(s, ast.ClassDef) and s.name == name), None)
    if c is None:
        raise AnalysisError(f"C14: class {name} not found")
    return c


def _meth(c: ast.ClassDef, name: str) -> ast.FunctionDef:
    f = next((s for s in c.body if isinstance(s, ast.FunctionDef) and s.name == name), None)
    if f is None:
        raise AnalysisError(f"C14: {c.name}.{name} not found")
    return f


def _eval_bool(t: ast.AST, env: dict) -> bool:
    if isinstance(t, ast.Name) and t.id in env:
        return env[t.id]
    if isinstance(t, ast.UnaryOp) and isinstance(t.op, ast.Not):
        return not _eval_bool(t.operand, env)
    if isinstance(t, ast.BoolOp):
        vals = [_eval_bool(v, env) for v in t.values]
        return all(vals) if isinstance(t.op, ast.And) else any(vals)
    if isinstance(t, ast.Call) and dotted(t.func) == "isinstance" and len(t.args) == 2 and dotted(t.args[1]) == "VectorCross" and dotted(t.args[0]) in ("lhs", "rhs"):
        return env[f"{dotted(t.args[0])}_is_cross_direct"]
    raise AnalysisError(f"C14: branch condition `{norm(t)}` is outside the decidable class")


def _eq(a, b) -> bool:
    if isinstance(a, list) != isinstance(b, list):
        return False
    if isinstance(a, list):
        return len(a) == len(b) and all(same(normalize(x), normalize(y)) for x, y in zip(a, b))
    return same(normalize(a), normalize(b))


def _show(x) -> str:
    if isinstance(x, list):
        return "[" + ", ".join(repr(normalize(t)) for t in x) + "]"
    return repr(normalize(x))


class _Vec:
    """a vector of R^3 by components; `cross_of` = (a, b) when the object is the unevaluated VectorCross(a, b)"""

    def __init__(self, comps: list, cross_of=None):
        self.comps, self.cross_of = list(comps), cross_of


class _Prod:
    """the unevaluated product object `self` of a differentiation hook: cls(args...)"""

    def __init__(self, cls: str, args: list):
        self.cls, self.args = cls, list(args)


SYMPY_DEFAULT = ("sympy-default-derivative", )  # super()._eval_derivative_n_times: SymPy applies _eval_derivative n times (R3's business)

from ..pyreader import PyReader, Raised  # noqa: E402


class _VecPy(PyReader):
    log_hooks = False  # True: operand hooks are logged and answer "no rewrite" (R2/R4); False: they are evaluated (R1)
    hook_log: list = []
    ordered = None  # what the stand-in for _ordered_mul answers: {sign: {(sorted vectors): factor}}
    stub_is_vector_expr = False
    diff_receivers: list = []
    shared_ordered = False

    def is_instance(self, v, names, n):
        if isinstance(v, _Vec):
            if "VectorCross" in names and v.cross_of is not None:
                return True
            atomic = {"VectorSymbol", "AppliedVectorFunction", "VectorDerivative"}
            if v.cross_of is None and (set(names) & (atomic | {"VectorExpr"})):
                return True
            if v.cross_of is not None and "VectorExpr" in names:
                return True
            return False
        if isinstance(v, _Prod):
            return bool(set(names) & {v.cls, "Expr", "Basic"} | ({"VectorExpr"} & set(names) if v.cls == "VectorCross" else set()))
        if isinstance(v, int) and not isinstance(v, bool):
            return bool(set(names) & {"int", "Integer", "SupportsInt"})
        if isinstance(v, (T, int)):
            return False
        self.fail(n, "isinstance outside the modelled classes")

    def hook_method(self, base, attr, args, kwargs, n):
        if isinstance(base, _Vec) and attr == "doit":
            return base
        if isinstance(base, _Vec) and attr == "atoms" and not kwargs and all(isinstance(a_, tuple) and len(a_) == 2 and a_[0] == "class" for a_ in args):
            # SymPy: the atomic sub-expressions of the requested classes; a cross product is no atom, its operands' atoms are
            def atoms_of(v_):
                return [x_ for o_ in v_.cross_of for x_ in atoms_of(o_)] if v_.cross_of is not None else [v_]
            from ..pyreader import PySet
            wanted = {a_[1] for a_ in args}
            out_ = PySet()
            if not wanted or wanted & {"VectorSymbol", "AppliedVectorFunction", "VectorExpr"}:
                for x_ in atoms_of(base):
                    out_[x_] = True
            return out_
        if isinstance(base, (T, int)) and not isinstance(base, bool) and attr == "diff" and 1 <= len(args) <= 2 and isinstance(args[0], T) and args[0].op == "var" and not kwargs \
                and self.stub_is_vector_expr:
            # a scalar that was BUILT here (an evaluated product) is differentiated: formally fine, but the receiver is no operand (R5's business)
            self.diff_receivers.append(base)
            k = args[1] if len(args) == 2 else 1
            if not (isinstance(k, int) and not isinstance(k, bool) and k >= 0):
                self.fail(n, "derivative of symbolic order")
            out_ = base if isinstance(base, T) else num(base)
            for _ in range(k):
                out_ = op("diff", out_, args[0])
            return out_
        if isinstance(base, _Vec) and attr == "diff" and 1 <= len(args) <= 2 and isinstance(args[0], T) and args[0].op == "var" and not kwargs:
            self.diff_receivers.append(base)
            k = args[1] if len(args) == 2 else 1
            if isinstance(k, T) and k.op == "num" and k.val.denominator == 1:
                k = int(k.val)
            if not (isinstance(k, int) and not isinstance(k, bool) and k >= 0):
                self.fail(n, "derivative of symbolic order")
            comps = list(base.comps)
            for _ in range(k):
                comps = [op("diff", x, args[0]) for x in comps]
            return _Vec(comps)
        if isinstance(base, _Prod) and attr == "func" and not kwargs:
            return self.make_product(base.cls, list(args), n)
        if isinstance(base, _Prod) and attr == "doit" and not args:
            return base
        if isinstance(base, tuple) and base == ("super", ) and attr in ("_eval_derivative_n_times", ):
            return SYMPY_DEFAULT
        if isinstance(base, _Vec) and attr in ("_eval_vector_dot", "_eval_vector_cross") and self.log_hooks:
            self.hook_log.append((base, attr, list(args)))
            return None  # no rewrite here: what the hooks of VectorCross answer is rule R1's business, which operands they are given is R4's
        return NotImplemented


    def make_product(self, name: str, vals: list, n):
        if not all(isinstance(v, _Vec) for v in vals):
            self.fail(n, "product of non-vectors")
        cs = [v.comps for v in vals]
        if name == "VectorDot" and len(cs) == 2:
            return t_dot(*cs)
        if name == "VectorCross" and len(cs) == 2:
            return _Vec(t_cross(*cs), cross_of=(vals[0], vals[1]))
        if name == "VectorMixedProduct" and len(cs) == 3:
            return t_mixed(*cs)
        if name == "VectorNorm" and len(cs) == 1:
            return t_norm(cs[0])
        self.fail(n, "arity")

    def hook_attr(self, base, attr, n):
        if isinstance(base, _Vec) and attr == "args" and base.cross_of is not None:
            return list(base.cross_of)
        if isinstance(base, _Prod):
            if attr == "args":
                return list(base.args)
            if attr == "func":
                return ("class", base.cls)
            if attr in ("lhs", "rhs") and len(base.args) == 2:
                return base.args[0 if attr == "lhs" else 1]
        return NotImplemented

    def hook_compare(self, o, l, r, n):
        # vector == 0 / vector != 0: the zero vector is the vector whose components all vanish identically
        if isinstance(o, (ast.Eq, ast.NotEq)) and (isinstance(l, _Vec) or isinstance(r, _Vec)):
            v_, z_ = (l, r) if isinstance(l, _Vec) else (r, l)
            if (isinstance(z_, int) and not isinstance(z_, bool) and z_ == 0) or (isinstance(z_, T) and z_.op == "num" and z_.val == 0):
                res = all(normalize(x).is_zero() for x in v_.comps)
                return res if isinstance(o, ast.Eq) else not res
        if isinstance(o, (ast.Eq, ast.NotEq)) and isinstance(l, T) and (isinstance(r, int) and not isinstance(r, bool) and r == 0 or isinstance(r, T) and r.op == "num" and r.val == 0):
            res = normalize(l).is_zero()
            return res if isinstance(o, ast.Eq) else not res
        return NotImplemented

    def hook_unary(self, o, v, n):
        if isinstance(v, _Vec) and isinstance(o, ast.USub):
            return _Vec([op("neg", x) for x in v.comps])
        return NotImplemented

    def global_value(self, n):
        if isinstance(n, ast.Name) and n.id in ("VectorDot", "VectorCross", "VectorMixedProduct", "VectorNorm", "VectorSymbol", "AppliedVectorFunction", "VectorDerivative", "VectorExpr") \
                and n.id not in self.functions:
            return ("class", n.id)  # a class handed on as a value: product(*operands), v.atoms(VectorSymbol)
        return super().global_value(n)

    def apply_value(self, fval, args, n, fns, kwargs=None):
        if isinstance(fval, tuple) and len(fval) == 2 and fval[0] == "class" and fval[1] in ("VectorDot", "VectorCross", "VectorMixedProduct", "VectorNorm") and not kwargs:
            return self.make_product(fval[1], list(args), n)
        return super().apply_value(fval, args, n, fns, kwargs)

    def hook_binop(self, o, l, r, n):
        # the unevaluated scalar product object `self` among numbers is its value
        if isinstance(l, _Prod) and l.cls != "VectorCross":
            l = self.make_product(l.cls, l.args, n)
        if isinstance(r, _Prod) and r.cls != "VectorCross":
            r = self.make_product(r.cls, r.args, n)
            if isinstance(l, (T, int)) and not isinstance(l, bool) and isinstance(o, (ast.Add, ast.Sub, ast.Mult, ast.Div)):
                return op({ast.Add: "add", ast.Sub: "sub", ast.Mult: "mul", ast.Div: "div"}[type(o)], self.scalar(l, n), r)
        lv, rv = isinstance(l, _Vec), isinstance(r, _Vec)
        if not (lv or rv):
            return NotImplemented
        def zero(x):
            return (isinstance(x, int) and x == 0) or (isinstance(x, T) and x.op == "num" and x.val == 0)
        if isinstance(o, (ast.Add, ast.Sub)) and lv != rv and zero(r if lv else l):
            return l if lv else (r if isinstance(o, ast.Add) else _Vec([op("neg", x) for x in r.comps]))
        if isinstance(o, ast.Mult) and lv != rv:
            s_, v_ = (r, l) if lv else (l, r)
            return _Vec([op("mul", self.scalar(s_, n), x) for x in v_.comps])
        if isinstance(o, ast.Div) and lv and not rv:
            return _Vec([op("div", x, self.scalar(r, n)) for x in l.comps])
        if isinstance(o, (ast.Add, ast.Sub)) and lv and rv:
            return _Vec([op("add" if isinstance(o, ast.Add) else "sub", a_, b_) for a_, b_ in zip(l.comps, r.comps)])
        self.fail(n, "vector arithmetic outside the decidable class")

    def hook_call(self, n, env, fns):
        name = (dotted(n.func) or "").split(".")[-1]
        if name == "cls":
            cv = env.get("cls")
            name = cv[1] if isinstance(cv, tuple) and len(cv) == 2 and cv[0] == "class" else "VectorCross"
        if name == "isinstance" and len(n.args) == 2:
            return self.is_instance(self.ev(n.args[0], env, fns), self.class_names(n.args[1]), n)
        if name == "_check_vector" and len(n.args) == 1:
            return self.ev(n.args[0], env, fns)
        if name == "super" and not n.args:
            return ("super", )
        if name == "is_vector_expr" and len(n.args) == 1 and self.stub_is_vector_expr:
            return isinstance(self.ev(n.args[0], env, fns), _Vec)
        if name == "binomial" and len(n.args) == 2 and name not in self.functions:
            a_, b_ = self.ev(n.args[0], env, fns), self.ev(n.args[1], env, fns)
            if isinstance(a_, int) and isinstance(b_, int) and 0 <= b_ <= a_:
                import math
                return math.comb(a_, b_)
            self.fail(n, "binomial of non-concrete arguments")
        if name == "_ordered_mul" and self.ordered is not None:
            for a in n.args:
                self.ev(a, env, fns)
            if self.shared_ordered:
                return self.ordered  # a memoised _ordered_mul answers every caller with the SAME mapping
            return {k_: dict(v_) for k_, v_ in self.ordered.items()}
        if name == "len" and len(n.args) == 1:
            v = self.ev(n.args[0], env, fns)
            if isinstance(v, (list, tuple, dict)):
                return len(v)
        if name in ("VectorDot", "VectorCross", "VectorMixedProduct", "VectorNorm") and name not in self.functions:
            vals = []
            for a in n.args:
                if isinstance(a, ast.Starred):
                    vals += list(self.ev(a.value, env, fns))
                else:
                    vals.append(self.ev(a, env, fns))
            return self.make_product(name, vals, n)
        return NotImplemented



def _r1_rules(run: Run, mod, cross_cls: ast.ClassDef) -> None:
    """the operand hooks of VectorCross are EVALUATED for the four combinations (operand is / is not itself a cross product) on generic component vectors"""

    R = _VecPy
    methods = ast.Module(body=[x for x in mod.tree.body if not isinstance(x, ast.ClassDef)] + [x for x in cross_cls.body if isinstance(x, ast.FunctionDef)], type_ignores=[])
    for mname, product, label in (("_eval_vector_dot", t_dot, "dot"), ("_eval_vector_cross", t_cross, "cross")):
        fn = _meth(cross_cls, mname)
        nrules = 0
        for lc, rc in itertools.product((True, False), repeat=2):
            A, B, C_, D = (_Vec(gvec(x)) for x in "abcd")
            L = _Vec(t_cross(A.comps, B.comps), cross_of=(A, B)) if lc else _Vec(gvec("L"))
            Rv = _Vec(t_cross(C_.comps, D.comps), cross_of=(C_, D)) if rc else _Vec(gvec("R"))
            rd = R(methods, f"VectorCross.{mname}[lhs_cross={lc},rhs_cross={rc}]", depth_limit=8)
            pat = f"{label}({'cross(a, b)' if lc else 'L'}, {'cross(c, d)' if rc else 'R'})"
            try:
                got = rd.call(mname, ["CLS", L, Rv])
            except Raised as r_:
                run.ob("R1", f"{mname}:{pat}")
                run.violate("R1", f"{MOD}:VectorCross.{mname}:{pat}", mod, fn, f"the operand hook raises {r_.exc} for {pat}")
                continue
            if got is None:
                continue  # no rewrite for this pattern
            want = product(L.comps, Rv.comps)
            nrules += 1
            run.ob("R1", f"{mname}:{pat}")
            gotv = got.comps if isinstance(got, _Vec) else got
            if not _eq(gotv, want):
                run.violate("R1", f"{MOD}:VectorCross.{mname}:{pat}", mod, fn,
                            f"the rewrite of {pat} is not an identity in R^3 (differs from the component expansion of {pat})")
            else:
                run.sample({"rule": pat, "identity": True})
        if nrules < 3:
            raise AnalysisError(f"C14: only {nrules} rewrite rules found in {mname}")


def _accumulations(fn: ast.FunctionDef):
    """the `for sign, tuple_to_factor in sign_to_mapping.items():` loop of a product's __new__"""
    for s in ast.walk(fn):
        if isinstance(s, ast.For) and isinstance(s.target, ast.Tuple) and len(s.target.elts) == 2 and isinstance(s.target.elts[0], ast.Name) \
                and s.target.elts[0].id == "sign" and isinstance(s.iter, ast.Call) and isinstance(s.iter.func, ast.Attribute) and s.iter.func.attr == "items":
            return s
    return None


def _r2_products(run: Run, mod) -> None:
    """the evaluating half of the three product constructors, EVALUATED against a stand-in for _ordered_mul that hands them one term of each permutation sign:
    {+1: (p, q[, r]) * k1, -1: (s, t[, u]) * k2, 0: a repeated vector * k0}"""
    table = [("VectorDot", False, 2), ("VectorCross", True, 2), ("VectorMixedProduct", True, 3)]
    prod = {"VectorDot": t_dot, "VectorCross": t_cross, "VectorMixedProduct": t_mixed}
    om = next((x for x in mod.tree.body if isinstance(x, ast.FunctionDef) and x.name == "_ordered_mul"), None)
    run.require(om is not None, "_ordered_mul not found")
    deco = [(dotted(d.func) if isinstance(d, ast.Call) else dotted(d)) or "?" for d in om.decorator_list]
    memo = [d for d in deco if d.split(".")[-1] in ("cacheit", "lru_cache", "cache", "memoize", "memoized")]
    if len(memo) != len(deco):
        raise AnalysisError(f"C14: _ordered_mul carries a decorator this analysis does not know: {deco}")
    for cname, antisym, arity in table:
        c = _cls(mod, cname)
        fn = _meth(c, "__new__")
        methods = ast.Module(body=[x for x in mod.tree.body if not isinstance(x, ast.ClassDef)] + [x for x in c.body if isinstance(x, ast.FunctionDef)], type_ignores=[])
        plus = tuple(_Vec(gvec(x)) for x in "pqr"[:arity])
        minus = tuple(_Vec(gvec(x)) for x in "stu"[:arity])
        rep = _Vec(gvec("v"))
        other = _Vec(gvec("w"))
        repeated = (rep, rep) if arity == 2 else (rep, rep, other)
        k1, k2, k0 = var("k1"), var("k2"), var("k0")
        rd = _VecPy(methods, f"{cname}.__new__", depth_limit=8)
        rd.hook_log = []
        rd.log_hooks = True
        rd.ordered = {1: {plus: k1}, -1: {minus: k2}, 0: {repeated: k0}}
        operands = [_Vec(gvec(f"in{i}")) for i in range(arity)]
        run.ob("R2", f"{cname}:accumulation")
        rd.shared_ordered = bool(memo)
        snapshot = {k_: dict(v_) for k_, v_ in rd.ordered.items()}
        try:
            got = rd.call("__new__", [("class", cname)] + operands, {"evaluate": True})
        except Raised as r_:
            run.violate("R2", f"{MOD}:{cname}.__new__:accumulation", mod, fn, f"{cname}.__new__ raises {r_.exc} while accumulating the sorted terms")
            continue
        if memo:
            run.ob("R2", f"{cname}:memoised-mapping-untouched")
            if set(rd.ordered) != set(snapshot) or any(rd.ordered[k_] != snapshot[k_] for k_ in snapshot):
                run.violate("R2", f"{MOD}:{cname}.__new__:mutates-memoised-mapping", mod, fn,
                            f"_ordered_mul is memoised ({memo[0]}), so every caller receives the same mapping - and {cname}.__new__ modifies it: a later product of the same "
                            f"operands (another class included) works on the damaged mapping and loses terms")
                rd.ordered = snapshot
        if arity == 2:
            # R4: the operand hooks are rewrite rules for product(lhs, rhs): whoever consults one passes (left operand, right operand) in that order
            hook = {"VectorDot": "_eval_vector_dot", "VectorCross": "_eval_vector_cross"}[cname]
            logged = [e for e in rd.hook_log if e[1] == hook]
            for base_, _, args_ in logged:
                run.ob("R4", f"{cname}:{'lhs' if base_ is operands[0] else 'rhs'}.{hook}")
                in_order = len(args_) == 2 and args_[0] is operands[0] and args_[1] is operands[1]
                # the dot product is symmetric and R1 decides that the hook computes dot(first, second) whatever it is given: either order is the same value
                swapped_dot = cname == "VectorDot" and len(args_) == 2 and args_[0] is operands[1] and args_[1] is operands[0]
                if not (in_order or swapped_dot):
                    run.violate("R4", f"{MOD}:{cname}.__new__:hook-operands-swapped", mod, fn,
                                f"{cname}.__new__ consults {hook} with its operands not in (left, right) order: the hook's rules rewrite product(first, second), so "
                                f"a x (b x c) is evaluated as (b x c) x a - the cross product changes sign")
                    break
            for which, obj_ in (("left", operands[0]), ("right", operands[1])):
                if not any(b_ is obj_ for b_, _, _ in logged):
                    run.violate("R4", f"{MOD}:{cname}.__new__:hook-not-consulted:{which}", mod, fn,
                                f"{cname}.__new__ does not consult the {which} operand's {hook}: products with a cross product on that side are no longer rewritten")
        tp, tm = prod[cname](*[x.comps for x in plus]), prod[cname](*[x.comps for x in minus])

        def scaled(t, k):
            return [op("mul", k, x) for x in t] if isinstance(t, list) else op("mul", k, t)

        def add(x, y):
            return [op("add", a_, b_) for a_, b_ in zip(x, y)] if isinstance(x, list) else op("add", x, y)

        if antisym:
            want = add(scaled(tp, k1), scaled(tm, op("neg", k2)))  # the sign of the sorting permutation multiplies the term; a repeated vector contributes 0
        else:
            want = add(add(scaled(tp, k1), scaled(tm, k2)), op("mul", k0, t_dot(rep.comps, rep.comps)))  # symmetric: no sign; dot(v, v) is norm(v)^2
        gotv = got.comps if isinstance(got, _Vec) else got
        if not _eq(gotv, want):
            run.violate("R2", f"{MOD}:{cname}.__new__:accumulation", mod, fn,
                        f"{cname}.__new__, given the sorted terms (+1: {'pqr'[:arity]}*k1, -1: {'stu'[:arity]}*k2, repeated vector: k0), does not return "
                        + ("k1*product(p..) - k2*product(s..) (the permutation sign multiplies each term exactly once, a repeated vector gives 0)" if antisym
                           else "k1*dot(p, q) + k2*dot(s, t) + k0*norm(v)^2 (no permutation sign for the symmetric product, dot(v, v) = norm(v)^2)"))
        else:
            run.sample({"product": cname, "accumulation": "identity"})
        # the same with a compound (non-atomic) vector among the sorted operands, at EVERY position (identity order puts a cross product anywhere):
        # the term is then built by the evaluating constructors
        for pos in list(range(arity)) + (["own-operands"] if arity == 3 else []):
            run.ob("R2", f"{cname}:accumulation:compound-operand@{pos}")
            mv, nv = _Vec(gvec("m")), _Vec(gvec("n"))
            comp = _Vec(t_cross(gvec("m"), gvec("n")), cross_of=(mv, nv))
            others = [_Vec(gvec(x)) for x in "qr"[:arity - 1]]
            if pos == "own-operands":
                # mixed(m x n, m x n ... ) style degeneracies: the remaining operands are built from the SAME symbols as the cross product - (m x n, m, n) is not coplanar
                pos = 0
                others = [mv, nv]  # mixed(m x n, m, n) = |m x n|^2
            plus2 = tuple(others[:pos] + [comp] + others[pos:])
            rd2 = _VecPy(methods, f"{cname}.__new__[compound@{pos}]", depth_limit=8)
            rd2.hook_log = []
            rd2.log_hooks = True
            rd2.ordered = {1: {plus2: k1}}
            try:
                # the operands handed to the constructor ARE the vectors of the sorted term (code that looks at the operands before asking _ordered_mul sees the same vectors)
                got2 = rd2.call("__new__", [("class", cname)] + list(plus2), {"evaluate": True})
                want2 = scaled(prod[cname](*[x.comps for x in plus2]), k1)
                g2 = got2.comps if isinstance(got2, _Vec) else got2
                if not _eq(g2, want2):
                    run.violate("R2", f"{MOD}:{cname}.__new__:accumulation:compound", mod, fn,
                                f"{cname}.__new__, given a sorted term whose vector number {pos + 1} is itself a cross product, does not return k1 * {cname}(the sorted vectors, in that order): "
                                f"a shortcut that is right for one position of the compound operand has the wrong sign (or value) for another")
                    break
            except Raised as r_:
                run.violate("R2", f"{MOD}:{cname}.__new__:accumulation:compound", mod, fn, f"{cname}.__new__ raises {r_.exc} for a compound sorted operand at position {pos + 1}")
                break


class _Lin:
    """a vector expression as SymPy holds it: `shape` atom (one vector), mul (scalar * vector or scalar * (sum)), add (a sum of scaled vectors);
    terms: [(vector name, coefficient term)]; for shape mul `factor` is the scalar pulled out in front and the terms are the bracket's"""

    def __init__(self, shape: str, terms: list, factor=None):
        self.shape, self.terms, self.factor = shape, list(terms), factor

    def comps(self) -> list:
        out = [num(0)] * 3
        for nm, c in self.terms:
            full = op("mul", self.factor, c) if self.factor is not None else c
            out = [op("add", o, op("mul", full, x)) for o, x in zip(out, gvec(nm))]
        return out


class _NormPy(_VecPy):
    """VectorNorm.__new__ on _Lin inputs. Results are products kept factor by factor: ("norm", _Lin), ("abs", term), plain scalar terms."""

    def is_instance(self, v, names, n):
        if isinstance(v, _Lin):
            if {"SymAdd", "Add"} & set(names):
                return v.shape == "add"
            if {"SymMul", "Mul"} & set(names):
                return v.shape == "mul"
            if "VectorExpr" in names or "VectorSymbol" in names:
                return v.shape == "atom"
            return bool({"Expr", "Basic"} & set(names))
        return super().is_instance(v, names, n)

    @staticmethod
    def common_factor(v: "_Lin"):
        cs = [c for _, c in v.terms]
        return cs[0] if cs and all(repr(normalize(c)) == repr(normalize(cs[0])) for c in cs) and not (cs[0].op == "num" and cs[0].val == 1) else None

    def hook_method(self, base, attr, args, kwargs, n):
        if isinstance(base, _Lin):
            if attr == "doit":
                return base
            if attr == "_eval_vector_norm" and not args:
                return None
            if attr == "together" and not args and base.shape == "add":
                k = self.common_factor(base)  # a*v + a*w -> a*(v + w); nothing in common: the sum as it is
                return _Lin("mul", [(nm, num(1)) for nm, _ in base.terms], k) if k is not None else base
        return super().hook_method(base, attr, args, kwargs, n)

    def hook_compare(self, o, l, r, n):
        if isinstance(l, _Lin) and isinstance(o, (ast.Eq, ast.NotEq)) and (r == 0 or (isinstance(r, T) and r.op == "num" and r.val == 0)):
            return isinstance(o, ast.NotEq)
        if isinstance(o, (ast.Eq, ast.NotEq)) and isinstance(l, T) and isinstance(r, (int, T)):
            try:
                res = same(normalize(l), normalize(r if isinstance(r, T) else num(r)))
            except AnalysisError:
                self.fail(n, "comparison of a scalar outside the decidable class")
            return res if isinstance(o, ast.Eq) else not res
        return super().hook_compare(o, l, r, n)

    def hook_binop(self, o, l, r, n):
        def factor_like(x):
            return (isinstance(x, tuple) and x and x[0] in ("norm", "abs", "prod")) or (isinstance(x, (T, int)) and not isinstance(x, bool))
        if isinstance(o, ast.Mult) and factor_like(l) and factor_like(r) and any(isinstance(x, tuple) for x in (l, r)):
            fl = list(l[1]) if isinstance(l, tuple) and l[0] == "prod" else [l]
            fr = list(r[1]) if isinstance(r, tuple) and r[0] == "prod" else [r]
            return ("prod", fl + fr)
        if isinstance(l, _Lin) and isinstance(r, (T, int)) and isinstance(o, (ast.Mult, ast.Div)) and l.shape in ("atom", "mul") and len(l.terms) == 1:
            c = r if isinstance(r, T) else num(r)
            return _Lin("mul", [(l.terms[0][0], num(1))], op("mul" if isinstance(o, ast.Mult) else "div", l.factor if l.factor is not None else l.terms[0][1], c))
        return super().hook_binop(o, l, r, n)

    def hook_call(self, n, env, fns):
        name = (dotted(n.func) or "").split(".")[-1]
        if name == "cls":
            v = self.ev(n.args[0], env, fns)
            ev_ = next((self.ev(k.value, env, fns) for k in n.keywords if k.arg == "evaluate"), None)
            if isinstance(v, _Lin) and ev_ is False:
                return ("norm", v)
            self.fail(n, "re-entrant evaluating constructor")
        if name in ("abs", "Abs") and len(n.args) == 1:
            v = self.ev(n.args[0], env, fns)
            if isinstance(v, (T, int)):
                return ("abs", v if isinstance(v, T) else num(v))
        if name == "_check_vector" and len(n.args) == 1:
            return self.ev(n.args[0], env, fns)
        if name == "split_factor" and len(n.args) == 1:
            v = self.ev(n.args[0], env, fns)
            if isinstance(v, _Lin) and v.shape == "mul":
                inner = _Lin("atom", v.terms) if len(v.terms) == 1 else _Lin("add", v.terms)
                return [inner, v.factor]
            if isinstance(v, _Lin) and v.shape == "atom":
                return [v, num(1)]
            if isinstance(v, _Lin):
                return [v, num(1)]  # a sum is returned unchanged with factor 1
        if name == "into_terms" and len(n.args) == 1:
            v = self.ev(n.args[0], env, fns)
            if isinstance(v, _Lin) and v.shape == "add":
                return [_Lin("mul", [(nm, num(1))], c) if not (c.op == "num" and c.val == 1) else _Lin("atom", [(nm, num(1))]) for nm, c in v.terms]
            if isinstance(v, _Lin):
                return [v]
        if name in ("SymAdd", "Add") and name not in self.functions:
            items = []
            for a in n.args:
                items += list(self.ev(a.value, env, fns)) if isinstance(a, ast.Starred) else [self.ev(a, env, fns)]
            if items and all(isinstance(x, _Lin) and len(x.terms) == 1 for x in items):
                return _Lin("add", [(x.terms[0][0], x.factor if x.factor is not None else x.terms[0][1]) for x in items])
            self.fail(n, "sum of something other than scaled vectors")
        if name == "gcd" and name not in self.functions:
            vals = [self.ev(a, env, fns) for a in n.args]
            if len(vals) == 1 and isinstance(vals[0], list):
                vals = vals[0]
            if vals and all(isinstance(x, (T, int)) for x in vals):
                ts = [x if isinstance(x, T) else num(x) for x in vals]
                if all(x.op == "num" and x.val.denominator == 1 for x in ts):
                    import math
                    return num(math.gcd(*[int(x.val) for x in ts]))  # of numbers: the positive divisor
                if all(repr(normalize(x)) == repr(normalize(ts[0])) for x in ts):
                    return ts[0]  # SymPy: gcd(a, a) is a - for a symbol the SIGN of the result is the symbol's
                return var("gcd(" + ",".join(sorted(repr(normalize(x)) for x in ts)) + ")")
        return super().hook_call(n, env, fns)


def _r6_norm(run: Run, mod) -> None:
    """R6: VectorNorm.__new__ EVALUATED on one vector, a scaled vector, a sum without and with a common scalar factor (a symbol of unknown sign, -1, 2): the
    result is a product of manifestly non-negative factors (norms, absolute values, positive numbers) whose square is dot(v, v)"""
    run.rule("R6", "the norm of k*v and of k*v + k*w is a product of manifestly non-negative factors whose square is dot of the argument with itself: norm(k*v) = |k| norm(v)")
    c = _cls(mod, "VectorNorm")
    fn = _meth(c, "__new__")
    methods = ast.Module(body=[x for x in mod.tree.body if not isinstance(x, ast.ClassDef)] + [x for x in c.body if isinstance(x, ast.FunctionDef)], type_ignores=[])
    k = var("k")
    cases = [("v", _Lin("atom", [("v", num(1))]))]
    for kn, kv in (("k", k), ("-1", num(-1)), ("2", num(2)), ("-k", op("neg", k))):
        cases.append((f"{kn}*v", _Lin("mul", [("v", num(1))], kv)))
        cases.append((f"{kn}*v + {kn}*w", _Lin("add", [("v", kv), ("w", kv)])))
    cases.append(("v + w", _Lin("add", [("v", num(1)), ("w", num(1))])))
    cases.append(("k*v + m*w", _Lin("add", [("v", k), ("w", var("m"))])))
    for label, arg in cases:
        run.ob("R6", f"VectorNorm:{label}")
        rd = _NormPy(methods, f"VectorNorm.__new__[{label}]", depth_limit=8)
        try:
            got = rd.call("__new__", [("class", "VectorNorm"), arg], {"evaluate": True})
        except Raised as r_:
            run.violate("R6", f"{MOD}:VectorNorm.__new__:{label}", mod, fn, f"norm({label}) raises {r_.exc}")
            continue
        factors = list(got[1]) if isinstance(got, tuple) and got and got[0] == "prod" else [got]
        square = num(1)
        signed = []
        for f_ in factors:
            if isinstance(f_, tuple) and f_ and f_[0] == "norm":
                cs = f_[1].comps()
                square = op("mul", square, t_dot(cs, cs))
            elif isinstance(f_, tuple) and f_ and f_[0] == "abs":
                square = op("mul", square, op("mul", f_[1], f_[1]))
            elif isinstance(f_, (T, int)) and not isinstance(f_, bool):
                t_ = f_ if isinstance(f_, T) else num(f_)
                square = op("mul", square, op("mul", t_, t_))
                nf = normalize(t_)
                if not (t_.op == "num" and t_.val > 0):
                    signed.append(repr(nf))
            else:
                signed.append(repr(f_))
        want = t_dot(arg.comps(), arg.comps())
        if signed:
            run.violate("R6", f"{MOD}:VectorNorm.__new__:sign", mod, fn,
                        f"norm({label}) is returned with the factor {signed[0]} whose sign nobody knows (a symbol, a gcd of symbols): for a negative value the norm is negative. "
                        f"Absolute homogeneity is norm(k*v) = |k| * norm(v)")
        elif not _eq(square, want):
            run.violate("R6", f"{MOD}:VectorNorm.__new__:value", mod, fn, f"norm({label}) squared is not dot({label}, {label})")


def _r2_sort(run: Run) -> None:
    """sort_with_sign touches its elements only through comparisons and equality, so its behaviour on sequences of at most three operands (the products have
    at most three) is decided by evaluating it on every order pattern: all sequences over {0, 1, 2} of length 0..3, with and without a key."""
    import itertools
    from ..pyreader import PyReader, Raised
    m = run.src.need(MISC)
    fn = next((s for s in m.tree.body if isinstance(s, ast.FunctionDef) and s.name == "sort_with_sign"), None)
    if fn is None:
        raise AnalysisError("C14: sort_with_sign not found")

    class R(PyReader):

        def classes(self, v):
            return {"list", "Sequence", "Iterable"} if isinstance(v, list) else ({"int"} if isinstance(v, int) else set())

        def hook_call(self, n, env, fns):
            name = (dotted(n.func) or "").split(".")[-1]
            if name == "isinstance" and len(n.args) == 2:
                return bool(self.classes(self.ev(n.args[0], env, fns)) & set(self.class_names(n.args[1])))
            if name == "sorted" and len(n.args) == 1:
                seq = self.ev(n.args[0], env, fns)
                kf = next((self.ev(k.value, env, fns) for k in n.keywords if k.arg == "key"), None)
                rev = next((self.ev(k.value, env, fns) for k in n.keywords if k.arg == "reverse"), False)
                if isinstance(seq, list) and all(isinstance(x, int) for x in seq):
                    keyf = (lambda x: x) if kf is None else (lambda x: self.apply_value(kf, [x], n, fns))
                    return sorted(seq, key=keyf, reverse=bool(rev))
                self.fail(n, "sorted() of a non-concrete sequence")
            if name == "set" and len(n.args) == 1:
                seq = self.ev(n.args[0], env, fns)
                if isinstance(seq, list):
                    return list(dict.fromkeys(seq))
            if name == "Permutation" and len(n.args) == 1:
                return ("permutation", list(self.ev(n.args[0], env, fns)))
            if isinstance(n.func, ast.Name) and n.func.id in env and env[n.func.id] == "NEGATE" and len(n.args) == 1:
                return -self.ev(n.args[0], env, fns)
            return NotImplemented

        def hook_method(self, base, attr, args, kwargs, n):
            if isinstance(base, list) and attr == "index" and len(args) == 1:
                if args[0] in base:
                    return base.index(args[0])
                raise Raised("ValueError", getattr(n, "lineno", 0))
            if isinstance(base, list) and attr == "count" and len(args) == 1:
                return base.count(args[0])
            if isinstance(base, tuple) and base and base[0] == "permutation" and attr in ("signature", "parity") and not args:
                p_ = base[1]
                if sorted(p_) != list(range(len(p_))):
                    raise Raised("ValueError", getattr(n, "lineno", 0))
                inv = sum(1 for a_ in range(len(p_)) for b_ in range(a_ + 1, len(p_)) if p_[a_] > p_[b_])
                return (1 if inv % 2 == 0 else -1) if attr == "signature" else inv % 2
            return NotImplemented

    def want(seq, neg):
        keyed = [-x for x in seq] if neg else list(seq)
        if len(set(keyed)) != len(keyed):
            sign = 0
        else:
            order = sorted(range(len(seq)), key=lambda i_: keyed[i_])
            inv = sum(1 for a_ in range(len(order)) for b_ in range(a_ + 1, len(order)) if order[a_] > order[b_])
            sign = 1 if inv % 2 == 0 else -1
        return sign, sorted(seq, key=(lambda x: -x) if neg else None)

    bad = None
    deep = run.tier == "thorough"  # thorough: every order pattern of up to four operands
    for ln in range(5 if deep else 4):
        for seq in itertools.product(range(4 if deep else 3), repeat=ln):
            for neg in (False, True):
                run.ob("R2", f"sort_with_sign:{list(seq)}{':key' if neg else ''}", nontrivial=False)
                rd = R(m.tree, "miscellaneous.py")
                try:
                    got = rd.call("sort_with_sign", [list(seq)] + (["NEGATE"] if neg else []))
                except Raised as r:
                    got = r
                ws, wl = want(list(seq), neg)
                ok = isinstance(got, list) and len(got) == 2 and got[0] == ws and isinstance(got[1], list) and (ws == 0 and sorted(got[1]) == sorted(wl) and
                                                                                                             [(-x if neg else x) for x in got[1]] == sorted((-x if neg else x) for x in got[1])
                                                                                                             or got[1] == wl)
                if not ok and bad is None:
                    bad = (list(seq), neg, got, (ws, wl))
    run.ob("R2", "sort_with_sign")
    if bad is not None:
        seq, neg, got, (ws, wl) = bad
        run.violate("R2", f"{MISC}:sort_with_sign:sign", m, fn,
                    f"sort_with_sign({seq}{', key=negate' if neg else ''}) evaluates to {('raises ' + got.exc) if isinstance(got, Raised) else got!r}; the signature of the sorting permutation "
                    f"(0 for repeated elements) and the sorted list are ({ws}, {wl})")


def _r2_key(run: Run, mod) -> None:
    """operands are ordered by object identity: equal keys must mean 'the same vector twice'"""
    fn = next((s for s in mod.tree.body if isinstance(s, ast.FunctionDef) and s.name == "_ordered_mul"), None)
    if fn is None:
        raise AnalysisError("C14: _ordered_mul not found")
    run.ob("R2", "_ordered_mul:identity-key")
    calls = [c for c in ast.walk(fn) if isinstance(c, ast.Call) and dotted(c.func) == "sort_with_sign"]
    if not calls:
        raise AnalysisError("C14: _ordered_mul no longer calls sort_with_sign")
    from ..flow import CFG, node_of
    cfg = CFG(fn)
    for c in calls:
        k = next((kw_.value for kw_ in c.keywords if kw_.arg == "key"), c.args[1] if len(c.args) > 1 else None)
        n = node_of(cfg, c)
        sl = cfg.slice(n, [k]) if (k is not None and n is not None) else None
        ok = sl is not None and sl.params <= {"key"} and sl.free == {"id"} and not sl.calls
        if not ok:
            run.violate("R2", f"{MOD}:_ordered_mul:key", mod, c,
                        f"the operands of a product are ordered by `{norm(k, 40) if k is not None else 'natural order'}` (default derived from {sorted((sl.free | sl.calls) if sl else [])}); only "
                        f"object identity `id` guarantees that equal keys mean the same vector - two distinct vectors with equal keys collapse (cross -> 0, dot -> norm^2)")


def _r3(run: Run, mod) -> None:
    """each `_eval_derivative` of the four products EVALUATED (sa/pyreader.py) on generic vector functions of the parameter: what it returns is the formal derivative
    of the product - whatever the shape of the code (unrolled product rule, a shared helper over the operand positions, reduce)"""
    t = var("t")
    table = [("VectorDot", 2, t_dot, "the derivative rule of VectorDot is not the product rule d[P(a,b)] = P(da,b) + P(a,db)"),
             ("VectorCross", 2, t_cross, "the derivative rule of VectorCross is not the product rule d[P(a,b)] = P(da,b) + P(a,db)"),
             ("VectorMixedProduct", 3, t_mixed, "the derivative of the mixed product is not the derivative of dot(a, cross(b, c))"),
             ("VectorNorm", 1, t_norm, "the derivative of norm(v) is not dot(v, dv) / norm(v)")]
    for cname, arity, product, message in table:
        c = _cls(mod, cname)
        fn = _meth(c, "_eval_derivative")
        methods = ast.Module(body=[x for x in mod.tree.body if not isinstance(x, ast.ClassDef)] + [x for x in c.body if isinstance(x, ast.FunctionDef)], type_ignores=[])
        ops_ = [_Vec(gvec(nm, ("t", ))) for nm in ("L", "R", "M")[:arity]]
        rd = _VecPy(methods, f"{cname}._eval_derivative", depth_limit=8)
        rd.stub_is_vector_expr = True
        rd.diff_receivers = []
        run.ob("R3", f"{cname}._eval_derivative")
        try:
            got = rd.call("_eval_derivative", [_Prod(cname, ops_), t])
        except Raised as r_:
            run.violate("R3", f"{MOD}:{cname}._eval_derivative", mod, fn, f"{message} (raises {r_.exc})")
            continue
        # R5 (termination), seen by the evaluation: whatever is differentiated on the way is an operand of the product - never something built here
        run.ob("R5", f"{cname}._eval_derivative:receivers-are-operands")
        foreign = [x for x in rd.diff_receivers if not any(x is o for o in ops_)]
        if foreign:
            run.violate("R5", f"{MOD}:{cname}._eval_derivative:differentiates-a-built-expression", mod, fn,
                        f"{cname}._eval_derivative calls diff() on an expression it has just built from the operands instead of on the operands: when that expression evaluates back "
                        f"to a {cname} (dot(a, cross(b, c)) is the mixed product again) the differentiation never terminates")
        prod = product(*[o.comps for o in ops_])
        want = [op("diff", x, t) for x in prod] if isinstance(prod, list) else op("diff", prod, t)
        gotv = got.comps if isinstance(got, _Vec) else (num(got) if isinstance(got, int) and not isinstance(got, bool) else got)
        ok = isinstance(gotv, (list, T)) and isinstance(gotv, list) == isinstance(want, list) and _eq(gotv, want)
        if not ok:
            run.violate("R3", f"{MOD}:{cname}._eval_derivative", mod, fn, message)
        else:
            run.sample({"rule": f"{cname}._eval_derivative", "product_rule": True})


def _r3_n_times(run: Run, mod) -> set:
    """`_eval_derivative_n_times` of the binary products, where defined, EVALUATED for orders 2 and 3 on generic, constant and linear vector functions of the
    parameter: the answer is the n-th formal derivative of the product (or SymPy's default, n applications of _eval_derivative). Returns the classes decided."""
    decided = set()
    t = var("t")
    for cname, product in (("VectorDot", t_dot), ("VectorCross", t_cross)):
        c = _cls(mod, cname)
        fn = next((f_ for f_ in c.body if isinstance(f_, ast.FunctionDef) and f_.name == "_eval_derivative_n_times"), None)
        if fn is None:
            continue
        methods = ast.Module(body=[x for x in mod.tree.body if not isinstance(x, ast.ClassDef)] + [x for x in c.body if isinstance(x, ast.FunctionDef)], type_ignores=[])
        kinds = {
            "generic": lambda nm: gvec(nm, ("t", )),
            "constant": lambda nm: gvec(nm),
            "linear": lambda nm: [op("add", op("mul", var(f"{nm}a{i}"), t), var(f"{nm}b{i}")) for i in range(3)],
        }
        bad = None
        for order in (2, 3):
            for lk, rk in itertools.product(kinds, repeat=2):
                L, R = _Vec(kinds[lk]("L")), _Vec(kinds[rk]("R"))
                rd = _VecPy(methods, f"{cname}._eval_derivative_n_times[{lk},{rk},n={order}]", depth_limit=8)
                rd.stub_is_vector_expr = True
                run.ob("R3", f"{cname}._eval_derivative_n_times:{lk}x{rk}:n={order}")
                try:
                    got = rd.call("_eval_derivative_n_times", [_Prod(cname, [L, R]), t, order])
                except Raised as r_:
                    bad = bad or (lk, rk, order, f"raises {r_.exc}")
                    continue
                if got == SYMPY_DEFAULT:
                    continue
                want = product(L.comps, R.comps)
                for _ in range(order):
                    want = [op("diff", x, t) for x in want] if isinstance(want, list) else op("diff", want, t)
                gotv = got.comps if isinstance(got, _Vec) else got
                if gotv is None or isinstance(gotv, tuple) or not _eq(gotv if not isinstance(gotv, int) else num(gotv), want):
                    bad = bad or (lk, rk, order, f"gives {_show(gotv) if isinstance(gotv, (list, T)) else gotv!r}, the derivative is {_show(want)}")
        if bad:
            lk, rk, order, what = bad
            run.violate("R3", f"{MOD}:{cname}._eval_derivative_n_times", mod, fn,
                        f"the order-{order} derivative hook of {cname} for a {lk} left and a {rk} right operand {what[:300]}: not the n-th derivative of the product "
                        f"(general Leibniz rule: every k = 0..n contributes)")
        decided.add(cname)
    return decided


HOOKS = ("_eval_vector_dot", "_eval_vector_cross")


def _names(e) -> set:
    return {x.id for x in ast.walk(e) if isinstance(x, ast.Name)}


def _operand_worlds(fn: ast.FunctionDef, seed_worlds: list) -> list:
    """[(world, hook call)] - for every call of an operand hook inside `fn`, the possible assignments name -> operand position
    (0 = left, 1 = right). Positions start at 2-tuple unpackings of the operand pair and are carried through position-wise
    re-bindings (`lhs, rhs = lhs.doit(), rhs.doit()`) and loops over literal tuples of pairs."""
    out = []

    def pos_of(e, w):
        ps = {w.get(n) for n in _names(e) if n in w}
        return ps.pop() if len(ps) == 1 else None

    def hook_calls(st):
        for x in ast.walk(st):
            if isinstance(x, ast.Call) and len(x.args) == 2:
                f = x.func
                if isinstance(f, ast.Attribute) and f.attr in HOOKS:
                    yield x
                elif isinstance(f, ast.Call) and dotted(f.func) == "getattr" and len(f.args) == 2:
                    yield x

    def walk(body, worlds):
        for st in body:
            if isinstance(st, ast.Assign) and len(st.targets) == 1 and isinstance(st.targets[0], ast.Tuple) and len(st.targets[0].elts) == 2 \
                    and all(isinstance(e, ast.Name) for e in st.targets[0].elts):
                t0, t1 = (e.id for e in st.targets[0].elts)
                v = st.value
                for w in worlds:
                    if isinstance(v, ast.Tuple) and len(v.elts) == 2:
                        p0, p1 = pos_of(v.elts[0], w), pos_of(v.elts[1], w)
                        w[t0], w[t1] = p0, p1
                    elif (isinstance(v, ast.Call) and dotted(v.func) == "map" and len(v.args) == 2 and dotted(v.args[1]) in ("values", "args")) or dotted(v) in ("values", "args", "self.args"):
                        w[t0], w[t1] = 0, 1
                    else:
                        w[t0], w[t1] = None, None
            elif isinstance(st, ast.For) and isinstance(st.target, ast.Tuple) and len(st.target.elts) == 2 and isinstance(st.iter, ast.Tuple) \
                    and all(isinstance(e, ast.Tuple) and len(e.elts) == 2 for e in st.iter.elts):
                u, v = (e.id for e in st.target.elts)
                for pair in st.iter.elts:
                    ws = []
                    for w in worlds:
                        w2 = dict(w)
                        w2[u], w2[v] = pos_of(pair.elts[0], w), pos_of(pair.elts[1], w)
                        ws.append(w2)
                    walk(st.body, ws)
                continue
            for c in (hook_calls(st) if not isinstance(st, (ast.If, ast.For, ast.While, ast.With, ast.Try)) else
                      hook_calls(getattr(st, "test", None) or getattr(st, "iter", None) or ast.Pass())):
                for w in worlds:
                    out.append((dict(w), c))
            for blk in ("body", "orelse", "finalbody"):
                if isinstance(st, (ast.If, ast.For, ast.While, ast.With, ast.Try)) and getattr(st, blk, None):
                    walk(getattr(st, blk), [dict(w) for w in worlds] if isinstance(st, ast.If) else worlds)
    walk(fn.body, seed_worlds)
    return out


def _r5_termination(run: Run, mod, n_times_decided=frozenset()) -> None:
    """differentiation and re-evaluation are well-founded"""
    classes = {c.name: c for c in mod.tree.body if isinstance(c, ast.ClassDef)}
    # ---- (a) every irreducible vector class is atomic for the products
    vec = {"VectorExpr"}
    changed = True
    while changed:
        changed = False
        for c in classes.values():
            if c.name not in vec and any(dotted(b) in vec for b in c.bases):
                vec.add(c.name)
                changed = True
    fn = next((f for f in mod.tree.body if isinstance(f, ast.FunctionDef) and f.name == "is_atomic_vector"), None)
    if fn is None:
        raise AnalysisError("C14: is_atomic_vector not found")
    atomic = set()
    for x in ast.walk(fn):
        if isinstance(x, ast.Call) and dotted(x.func) == "isinstance" and len(x.args) == 2:
            t = x.args[1]
            atomic |= {dotted(e) for e in (t.elts if isinstance(t, ast.Tuple) else [t])}
    for name in sorted(vec - {"VectorExpr"}):
        c = classes[name]
        run.ob("R5", f"irreducible-or-hooked:{name}")
        own = {f.name for f in c.body if isinstance(f, ast.FunctionDef)}
        hooked = set(HOOKS) <= own
        if name not in atomic and not hooked:
            run.violate("R5", f"{MOD}:{name}:neither-atomic-nor-reducible", mod, c,
                        f"{name} is a vector expression that is_atomic_vector does not accept and that defines no operand hooks: a product with such an operand "
                        f"re-evaluates itself (`cls(v, w)`) with unchanged operands - dot/cross/mixed products containing it never terminate")
    # ---- (b) _eval_derivative recurses on strict sub-expressions only
    may_build: dict = {}
    for c in classes.values():
        outs = set()
        for f in c.body:
            if isinstance(f, ast.FunctionDef) and f.name in ("__new__", "eval", "doit") + HOOKS:
                outs |= {dotted(x.func) for x in ast.walk(f) if isinstance(x, ast.Call) and dotted(x.func) in classes}
        may_build[c.name] = outs
    hook_builds = set()
    for c in classes.values():
        for f in c.body:
            if isinstance(f, ast.FunctionDef) and f.name in HOOKS:
                hook_builds |= {dotted(x.func) for x in ast.walk(f) if isinstance(x, ast.Call) and dotted(x.func) in classes}
    for c in classes.values():  # a constructor that calls the hooks may return whatever a hook builds
        if any(isinstance(x, ast.Attribute) and x.attr in HOOKS for f in c.body if isinstance(f, ast.FunctionDef) and f.name == "__new__" for x in ast.walk(f)):
            may_build[c.name] |= hook_builds

    def reach(a: str) -> set:
        seen, work = set(), [a]
        while work:
            k = work.pop()
            for n in may_build.get(k, ()):
                if n not in seen:
                    seen.add(n)
                    work.append(n)
        return seen

    from ..flow import CFG, conditions_for, stmt_of
    n = 0
    for c in classes.values():
        f = next((m_ for m_ in c.body if isinstance(m_, ast.FunctionDef) and m_.name == "_eval_derivative"), None)
        if f is None:
            continue
        helpers = [h for h in mod.tree.body if isinstance(h, ast.FunctionDef)
                   and any(isinstance(x, ast.Call) and isinstance(x.func, ast.Name) and x.func.id == h.name for x in ast.walk(f))]
        for call in [x for scope in [f] + helpers for x in ast.walk(scope) if isinstance(x, ast.Call) and isinstance(x.func, ast.Attribute) and x.func.attr == "diff"]:
            n += 1
            recv = call.func.value
            run.ob("R5", f"{c.name}._eval_derivative:{norm(call, 40)}")
            why = None
            if (isinstance(recv, ast.Name) and recv.id == "self") or (isinstance(recv, ast.Call) and dotted(recv.func) == "super"):
                why = "calls diff() on the very expression being differentiated, which dispatches to this method again"
            elif isinstance(recv, ast.Call) and dotted(recv.func) in classes:
                y = dotted(recv.func)
                if c.name == y or c.name in reach(y):
                    why = f"differentiates a freshly built {y}(...), whose evaluation can produce a {c.name} again ({y} -> {sorted(reach(y))})"
            elif isinstance(recv, ast.Name):
                defs = [a for a in ast.walk(f) if isinstance(a, ast.Assign) and any(isinstance(t_, ast.Name) and t_.id == recv.id for t_ in a.targets)]
                for d in defs:
                    v = d.value
                    if isinstance(v, ast.Call) and isinstance(v.func, ast.Attribute) and v.func.attr in ("doit", "simplify", "expand") and dotted(v.func.value) == "self":
                        conds = conditions_for(f, stmt_of(f, call)) or []
                        guarded = any(not p and isinstance(t_, ast.Call) and dotted(t_.func) == "isinstance" and dotted(t_.args[0]) == recv.id and dotted(t_.args[1]) == c.name for t_, p in conds
                                      if not isinstance(t_, str)) or \
                            any(p and isinstance(t_, ast.UnaryOp) and isinstance(t_.op, ast.Not) and isinstance(t_.operand, ast.Call) and dotted(t_.operand.func) == "isinstance"
                                and dotted(t_.operand.args[0]) == recv.id and dotted(t_.operand.args[1]) == c.name for t_, p in conds if not isinstance(t_, str))
                        if not guarded:
                            why = f"differentiates `{norm(v, 30)}` without first making sure it is no longer a {c.name}"
            if why:
                run.violate("R5", f"{MOD}:{c.name}._eval_derivative:{norm(call, 50)}", mod, call,
                            f"{c.name}._eval_derivative {why}: differentiating such an expression with a parameter-dependent operand never terminates")
    run.floor("R5", n, 3, "diff() calls inside _eval_derivative methods and their helpers (the four products are also decided by evaluation, R3)")
    # scalar-valued products are ordinary commuting scalars for SymPy: without the declaration is_commutative is None and SymPy keeps
    # dot(a, b)*dot(c, d) and dot(c, d)*dot(a, b) apart, refuses to solve equations containing them, and orders factors by creation history
    for c in classes.values():
        if [dotted(b) for b in c.bases] != ["Expr"] or not any(isinstance(f_, ast.FunctionDef) and f_.name == "__new__" for f_ in c.body):
            continue
        run.ob("R2", f"{c.name}:commutative-scalar")
        decl = {t.id: a.value for a in c.body if isinstance(a, ast.Assign) for t in a.targets if isinstance(t, ast.Name)}
        v = decl.get("is_commutative")
        rl = decl.get("is_real")  # real -> complex -> commutative in SymPy's assumption system
        if not ((isinstance(v, ast.Constant) and v.value is True) or (isinstance(rl, ast.Constant) and rl.value is True)):
            run.violate("R2", f"{MOD}:{c.name}:is_commutative", mod, c,
                        f"{c.name} is a scalar-valued product but declares neither `is_commutative = True` nor `is_real = True` (which implies it): SymPy treats it as a non-commutative factor, so "
                        f"{c.name}(a, b)*x - x*{c.name}(a, b) does not cancel and the form of a result depends on the order the factors were written in")
    # differentiation enters these classes only through _eval_derivative (decided by R3/R5); any other SymPy differentiation hook would bypass both rules
    OTHER_HOOKS = ("_eval_derivative_n_times", "fdiff", "diff", "_eval_diff", "_eval_derivative_matrix_lines")
    for c in classes.values():
        extra = [f_.name for f_ in c.body if isinstance(f_, ast.FunctionDef) and f_.name in OTHER_HOOKS
                 and not (f_.name == "_eval_derivative_n_times" and c.name in n_times_decided)]
        if extra and c.name != "VectorDerivative":
            raise AnalysisError(f"C14: {c.name} defines the differentiation hook(s) {extra}, which this check does not decide (only _eval_derivative is evaluated): "
                                f"no verdict on the derivative clause")


def check(run: Run) -> None:
    run.rule("R1", "every product rewrite rule (pattern => replacement) is a polynomial identity in the components of generic real 3-vectors")
    run.rule("R2", "sort_with_sign returns the permutation signature (0 on repeats); products multiply by it exactly when antisymmetric; special values for repeated operands")
    run.rule("R3", "each _eval_derivative equals the formal derivative of the product for generic vector functions")
    mod = run.src.need(MOD)
    _r1_rules(run, mod, _cls(mod, "VectorCross"))
    _r2_sort(run)
    _r2_key(run, mod)
    _r2_products(run, mod)
    _r3(run, mod)
    n_times = _r3_n_times(run, mod)
    _r6_norm(run, mod)
    run.rule("R4", "operand hooks (_eval_vector_dot/_eval_vector_cross) are always called with (left operand, right operand) of the product being evaluated")
    run.rule("R5", "termination: every irreducible vector class is atomic for the products (or supplies operand hooks), and each _eval_derivative "
             "differentiates strict sub-expressions only - never itself, nor a freshly built product whose evaluation can return the same class")
    _r5_termination(run, mod, n_times)
