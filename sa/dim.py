"""E1 - dimension engine: an abstract interpreter of module-level code in the domain of physical
dimensions. Reads source only. `Unknown` never produces a report.
"""
from __future__ import annotations

import ast
import math
from dataclasses import dataclass, field
from fractions import Fraction
from typing import Any, Callable, Optional

from .core import Mod, Source, norm
from .units import Dim, ONE, Number, dimension_table, unit_table, prefix_table, num_mul, num_div, num_pow, num_add

Q = "symplyphysics.core."
SYM = Q + "symbols.symbols."

# qualified names of the library constructors the evaluator understands
C_SYMBOL = SYM + "Symbol"
C_FUNCTION = SYM + "Function"
C_INDEXED = SYM + "IndexedSymbol"
C_CLONE_SYM = SYM + "clone_as_symbol"
C_CLONE_FUN = SYM + "clone_as_function"
C_CLONE_IDX = SYM + "clone_as_indexed"
C_MATRIX = SYM + "Matrix"
C_QUANTITY = Q + "symbols.quantities.Quantity"
C_INDEXED_SUM = Q + "operations.sum_indexed.IndexedSum"
C_INDEXED_PRODUCT = Q + "operations.product_indexed.IndexedProduct"
SYMBOLIC_WRAPPERS = {Q + "operations.symbolic." + n for n in ("Average", "FiniteDifference", "ExactDifferential", "InexactDifferential", "Symbolic")}

DIMLESS_ARG_FUNCS = {
    "exp", "sin", "cos", "tan", "cot", "sec", "csc", "sinh", "cosh", "tanh", "coth", "sech", "csch", "asin", "acos", "atan",
    "acot", "asec", "acsc", "asinh", "acosh", "atanh", "acoth",
}
# functions whose result is a pure number but whose arguments C01 does not constrain (log etc.)
NUMERIC_FUNCS = {
    "log", "ln", "erf", "erfc", "factorial", "gamma", "besselj", "besselk", "bessely", "besseli", "hermite", "legendre",
    "assoc_legendre", "Ynm", "binomial", "floor", "ceiling", "sign", "atan2", "sinc", "LambertW", "zeta", "polylog",
    "loggamma", "airyai", "airybi", "jn", "yn", "Heaviside", "DiracDelta", "KroneckerDelta", "LeviCivita", "arg", "frac",
    "assoc_laguerre", "laguerre", "chebyshevt", "erfinv", "expint", "Ei", "Si", "Ci", "fresnels", "fresnelc", "elliptic_k",
    "elliptic_e", "elliptic_f", "jacobi", "gegenbauer", "hyper", "uppergamma", "lowergamma", "digamma", "polygamma", "primepi",
}
SAME_DIM_FUNCS = {
    "abs", "Abs", "re", "im", "conjugate", "simplify", "expand", "factor", "N", "nsimplify", "together", "cancel", "trigsimp",
    "radsimp", "powsimp", "collect", "apart", "expand_trig", "powdenest", "ratsimp", "logcombine", "expand_log", "sympify",
    "S", "UnevaluatedExpr", "refine", "expand_complex", "separatevars", "combsimp", "signsimp", "nfloat",
}
SAME_DIM_METHODS = {
    "doit", "simplify", "expand", "evalf", "n", "factor", "subs", "replace", "xreplace", "rewrite", "together", "cancel",
    "trigsimp", "collect", "conjugate", "removeO", "applyfunc", "transpose", "limit", "series", "nsimplify", "radsimp",
    "powsimp", "apart", "as_expr", "copy", "expand_trig", "refine",
}
SYMPY_CONST_NUM = {"pi": math.pi, "E": math.e, "EulerGamma": 0.5772156649015329, "GoldenRatio": 1.618033988749895}
RELATIONS = {"Eq", "Ne", "Lt", "Le", "Gt", "Ge", "Equality", "StrictLessThan", "LessThan", "StrictGreaterThan", "GreaterThan", "Unequality"}


@dataclass
class Val:
    kind: str
    dim: Any = None  # Dim for expr/func/indexed/dimobj
    num: Any = None  # known magnitude in SymPy canonical scale (pure numbers: the value)
    extra: Any = None
    why: str = ""
    ident: Optional[str] = None  # identity of the symbol object: defining construct (module:line:col)
    display: Optional[str] = None  # display (code) name when statically known

    def __repr__(self) -> str:
        if self.kind == "unknown":
            return f"Unknown({self.why})"
        if self.kind in ("expr", "func", "indexed", "dimobj"):
            return f"{self.kind}[{self.dim}]" + (f"={self.num}" if self.num is not None else "")
        return f"{self.kind}({self.extra if not isinstance(self.extra, (ast.AST, list, dict)) else ''})"


def UNKNOWN(why: str = "") -> Val:
    return Val("unknown", why=why)


ANY = Val("any")
ZERO = Val("any", num=Fraction(0))


def NUM(x: Optional[Number] = None) -> Val:
    return Val("expr", ONE, num=x)


def EXPR(d: Dim, num: Optional[Number] = None) -> Val:
    return Val("expr", d, num=num)


def DIMOBJ(d: Optional[Dim], any_: bool = False) -> Val:
    return Val("dimobj", d, extra="any" if any_ else None)


@dataclass
class Issue:
    rule: str  # H1 relation sides, H2 sum/minmax/piecewise/limits operands, H3 exponent, H4 function argument
    node: ast.AST
    msg: str
    stmt: Optional[ast.stmt]  # module-level statement (None inside a function evaluation)
    targets: tuple  # names bound by that statement
    text: str
    facts: dict = field(default_factory=dict)


@dataclass
class Application:
    node: ast.Call
    func: Val
    nargs_used: int
    name: str
    stmt: Optional[ast.stmt]


class ModEnv:

    def __init__(self, mod: Optional[Mod], name: str):
        self.mod = mod
        self.name = name
        self.names: dict[str, Val] = {}
        self.bind_sites: dict[str, list[ast.stmt]] = {}
        self.issues: list[Issue] = []
        self.apps: list[Application] = []
        self.noattr: list[tuple[ast.AST, str, str, Optional[ast.stmt]]] = []  # (node, module, attr, stmt)
        self.done = False


class World:
    """Memoised module environments over one Source."""

    def __init__(self, src: Source):
        self.src = src
        self.envs: dict[str, ModEnv] = {}
        self.dims = dimension_table()
        self.units = unit_table()
        self.depth = 0

    def is_module(self, name: str) -> bool:
        return name in self.src.mods

    def env(self, name: str) -> ModEnv:
        e = self.envs.get(name)
        if e is not None:
            return e
        mod = self.src.get(name)
        e = ModEnv(mod, name)
        self.envs[name] = e
        if mod is not None:
            Interp(self, e).run_module()
        e.done = True
        return e

    # sympy.physics.units attribute
    def units_attr(self, a: str) -> Val:
        if a in self.dims:
            return DIMOBJ(self.dims[a])
        if a == "Dimension":
            return Val("sympy", extra="Dimension")
        if a == "Quantity":
            return Val("sympy", extra="SymQuantity")
        if a in ("convert_to", ):
            return Val("sympy", extra=a)
        u = self.units.unit(a)
        if u is not None:
            scale, d = u
            if d is None:
                return UNKNOWN(f"unit {a} without SI dimension")
            return Val("expr", d, num=scale, extra="unit")
        if a in prefix_table():
            return NUM(prefix_table()[a])
        return UNKNOWN(f"sympy.physics.units.{a}")


def _lit_str(n: Optional[ast.AST]) -> Optional[str]:
    if isinstance(n, ast.Constant) and isinstance(n.value, str):
        return n.value
    return None


class Interp:

    def __init__(self, world: World, env: ModEnv, local: Optional[dict[str, Val]] = None):
        self.w = world
        self.env = env
        self.local = local  # function-local bindings when evaluating a function body
        self.stmt: Optional[ast.stmt] = None
        self.targets: tuple = ()
        self.inline_depth = 0

    # ------------------------------------------------------------------ statements
    def run_module(self) -> None:
        assert self.env.mod is not None
        for s in self.env.mod.tree.body:
            self.top_stmt(s)

    def top_stmt(self, s: ast.stmt) -> None:
        self.stmt = s
        self.targets = tuple(_targets_of(s))
        if isinstance(s, ast.ImportFrom):
            self.import_from(s)
        elif isinstance(s, ast.Import):
            for a in s.names:
                if a.asname:
                    self.bind_name(a.asname, self.module_val(a.name), s)
                else:
                    self.bind_name(a.name.split(".")[0], self.module_val(a.name.split(".")[0]), s)
        elif isinstance(s, ast.Assign):
            v = self.ev(s.value)
            for t in s.targets:
                self.bind(t, v, s)
        elif isinstance(s, ast.AnnAssign):
            if s.value is not None:
                self.bind(s.target, self.ev(s.value), s)
        elif isinstance(s, ast.AugAssign):
            if isinstance(s.target, ast.Name):
                self.bind_name(s.target.id, UNKNOWN("augmented assignment"), s)
        elif isinstance(s, (ast.FunctionDef, ast.AsyncFunctionDef)):
            self.bind_name(s.name, Val("pyfunc", extra=(self.env.name + "." + s.name, s, self.env.name)), s)
        elif isinstance(s, ast.ClassDef):
            self.bind_name(s.name, Val("pyclass", extra=self.env.name + "." + s.name), s)
        elif isinstance(s, ast.With):
            for b in s.body:
                self.top_stmt(b)
        elif isinstance(s, (ast.For, ast.While, ast.If, ast.Try)):
            # names bound under control flow: unknown (never guessed)
            for n in ast.walk(s):
                if isinstance(n, ast.Name) and isinstance(n.ctx, ast.Store):
                    self.bind_name(n.id, UNKNOWN("bound under control flow"), s)
        elif isinstance(s, ast.Assert):
            self.ev(s.test)
        elif isinstance(s, ast.Expr):
            if not isinstance(s.value, ast.Constant):
                self.ev(s.value)

    def bind_name(self, name: str, v: Val, s: ast.stmt) -> None:
        self.env.names[name] = v
        self.env.bind_sites.setdefault(name, []).append(s)

    def bind(self, target: ast.AST, v: Val, s: ast.stmt) -> None:
        if isinstance(target, ast.Name):
            self.bind_name(target.id, v, s)
        elif isinstance(target, (ast.Tuple, ast.List)):
            items = v.extra if v.kind == "seq" and isinstance(v.extra, list) and len(v.extra) == len(target.elts) else None
            for i, el in enumerate(target.elts):
                self.bind(el, items[i] if items is not None else UNKNOWN("tuple unpacking"), s)
        # attribute / subscript stores: not a name binding (C03-I3 looks at those)

    def module_val(self, name: str) -> Val:
        if name == "sympy.physics.units" or name == "sympy.physics.units.definitions.unit_definitions":
            return Val("module", extra="sympy.physics.units")
        if name.split(".")[0] == "symplyphysics":
            return Val("module", extra=name)
        return Val("module", extra=name)

    def import_from(self, s: ast.ImportFrom) -> None:
        base = s.module or ""
        if s.level:
            parts = self.env.name.split(".")
            if not (self.env.mod and self.env.mod.is_pkg):
                parts = parts[:-1]
            parts = parts[:len(parts) - (s.level - 1)]
            base = ".".join(parts + ([s.module] if s.module else []))
        for a in s.names:
            local = a.asname or a.name
            if a.name == "*":
                sub = self.w.env(base)
                exported = None
                allv = sub.names.get("__all__")
                if allv is not None and allv.kind == "seq":
                    exported = {x.extra for x in allv.extra if x.kind == "str"}
                for k, v in list(sub.names.items()):
                    if exported is not None:
                        if k in exported:
                            self.bind_name(k, v, s)
                    elif not k.startswith("_"):
                        self.bind_name(k, v, s)
                continue
            self.bind_name(local, self.resolve_from(base, a.name, s), s)

    def resolve_from(self, base: str, name: str, node: ast.AST) -> Val:
        if base.split(".")[0] == "symplyphysics":
            if not self.w.is_module(base):
                return UNKNOWN(f"no module {base}")
            e = self.w.env(base)
            if name in e.names:
                return e.names[name]
            sub = base + "." + name
            if self.w.is_module(sub):
                return Val("module", extra=sub)
            if e.done:
                self.env.noattr.append((node, base, name, self.stmt))
            return UNKNOWN(f"no attribute {base}.{name}")
        if base == "sympy.physics" and name == "units":
            return Val("module", extra="sympy.physics.units")
        if base.startswith("sympy.physics.units"):
            if name in ("Dimension", ):
                return Val("sympy", extra="Dimension")
            if name == "Quantity":
                return Val("sympy", extra="SymQuantity")
            if base.endswith("dimension_definitions") or base == "sympy.physics.units":
                v = self.w.units_attr(name)
                if v.kind != "unknown":
                    return v
            if base.endswith("prefixes") and name in prefix_table():
                return NUM(prefix_table()[name])
            if base.endswith("unit_definitions") or base.endswith("definitions"):
                v = self.w.units_attr(name)
                if v.kind != "unknown":
                    return v
            return Val("sympy", extra=name)
        if base.split(".")[0] == "sympy":
            return Val("sympy", extra=name)
        return Val("foreign", extra=f"{base}.{name}")

    # ------------------------------------------------------------------ expressions
    def issue(self, rule: str, node: ast.AST, msg: str, **facts: Any) -> None:
        self.env.issues.append(Issue(rule, node, msg, self.stmt, self.targets, norm(node, 160), facts))

    def lookup(self, name: str) -> Optional[Val]:
        if self.local is not None and name in self.local:
            return self.local[name]
        return self.env.names.get(name)

    def ev(self, n: ast.AST) -> Val:
        try:
            return self._ev(n)
        except RecursionError:
            raise
        except (ZeroDivisionError, OverflowError, ValueError, TypeError) as e:
            return UNKNOWN(f"arithmetic {type(e).__name__}")

    def _ev(self, n: ast.AST) -> Val:
        if isinstance(n, ast.Constant):
            v = n.value
            if isinstance(v, bool):
                return Val("bool", extra=v)
            if isinstance(v, int):
                return ZERO if v == 0 else NUM(Fraction(v))
            if isinstance(v, float):
                return ZERO if v == 0 else NUM(v)
            if isinstance(v, complex):
                return NUM(v)
            if isinstance(v, str):
                return Val("str", extra=v)
            if v is None:
                return Val("none")
            return UNKNOWN("constant")
        if isinstance(n, ast.Name):
            v = self.lookup(n.id)
            if v is not None:
                if v.kind == "sympy":
                    if v.extra in SYMPY_CONST_NUM:
                        return NUM(SYMPY_CONST_NUM[v.extra])
                    if v.extra == "I":
                        return NUM(1j)
                    if v.extra in ("oo", "zoo", "nan"):
                        return ANY
                return v
            if n.id in ("abs", "sum", "min", "max", "float", "int", "len", "range", "getattr", "list", "tuple", "zip", "map",
                        "enumerate", "complex", "sorted", "dict", "set", "str", "isinstance", "all", "any", "round", "pow"):
                return Val("builtin", extra=n.id)
            return UNKNOWN(f"unbound name {n.id}")
        if isinstance(n, ast.Attribute):
            return self.attr(n)
        if isinstance(n, ast.UnaryOp):
            v = self.ev(n.operand)
            if isinstance(n.op, ast.USub) and v.kind == "expr" and v.num is not None:
                return Val("expr", v.dim, num=num_mul(Fraction(-1), v.num), extra=v.extra)
            if isinstance(n.op, ast.Not):
                return Val("bool")
            return v
        if isinstance(n, ast.BinOp):
            return self.binop(n.op, self.ev(n.left), self.ev(n.right), n)
        if isinstance(n, ast.Call):
            return self.call(n)
        if isinstance(n, ast.Subscript):
            return self.subscript(n)
        if isinstance(n, (ast.List, ast.Tuple)):
            return Val("seq", extra=[self.ev(e) for e in n.elts])
        if isinstance(n, ast.Dict):
            return Val("dict", extra=[(self.ev(k) if k is not None else UNKNOWN("**"), self.ev(v)) for k, v in zip(n.keys, n.values)])
        if isinstance(n, ast.IfExp):
            self.ev(n.test)
            return self.unify(self.ev(n.body), self.ev(n.orelse), n, "H2", "conditional expression branches")
        if isinstance(n, ast.Compare):
            l = self.ev(n.left)
            for c in n.comparators:
                r = self.ev(c)
                if _is_dimensional(l) and _is_dimensional(r):
                    self.unify(l, r, n, "H1", "compared operands")
                l = r
            return Val("bool")
        if isinstance(n, ast.BoolOp):
            for v in n.values:
                self.ev(v)
            return Val("bool")
        if isinstance(n, ast.Starred):
            return UNKNOWN("starred")
        if isinstance(n, ast.Lambda):
            return Val("lambda", extra=n)
        if isinstance(n, (ast.ListComp, ast.GeneratorExp, ast.SetComp, ast.DictComp)):
            return UNKNOWN("comprehension")
        if isinstance(n, ast.JoinedStr):
            return Val("str", extra=None)
        return UNKNOWN(type(n).__name__)

    # -------------------------------------------------- attributes
    def attr(self, n: ast.Attribute) -> Val:
        base = self.ev(n.value)
        a = n.attr
        if base.kind == "module":
            m = base.extra
            if m == "sympy.physics.units":
                return self.w.units_attr(a)
            if m == "sympy.physics" and a == "units":
                return Val("module", extra="sympy.physics.units")
            if m.split(".")[0] == "symplyphysics":
                if not self.w.is_module(m):
                    return UNKNOWN(f"no module {m}")
                e = self.w.env(m)
                if a in e.names:
                    return e.names[a]
                if self.w.is_module(m + "." + a):
                    return Val("module", extra=m + "." + a)
                if e.done:
                    self.env.noattr.append((n, m, a, self.stmt))
                return UNKNOWN(f"no attribute {m}.{a}")
            if m.split(".")[0] == "sympy":
                return Val("sympy", extra=a)
            return Val("foreign", extra=f"{m}.{a}")
        if a == "dimension":
            if base.kind in ("expr", "func", "indexed"):
                return DIMOBJ(base.dim)
            if base.kind == "any":
                return DIMOBJ(None, any_=True)
            return UNKNOWN(f".dimension of {base.kind}")
        if base.kind == "eq":
            if a == "lhs":
                return base.extra[0]
            if a == "rhs":
                return base.extra[1]
            if a == "args":
                return Val("seq", extra=list(base.extra[:2]))
        if base.kind == "sympy" and base.extra in ("S", "singleton"):
            if a == "Zero":
                return ZERO
            if a in ("Infinity", "NegativeInfinity", "NaN", "ComplexInfinity"):
                return ANY
            table = {"One": Fraction(1), "Half": Fraction(1, 2), "NegativeOne": Fraction(-1), "Pi": math.pi, "ImaginaryUnit": 1j,
                     "Exp1": math.e}
            if a in table:
                return NUM(table[a])
        if base.kind == "expr" and a in ("scale_factor", ):
            return NUM(base.num)
        if base.kind == "matrix" and a == "T":
            rows = base.extra
            try:
                return Val("matrix", extra=[list(r) for r in zip(*rows)])
            except TypeError:
                return UNKNOWN("matrix transpose")
        if base.kind == "pyobj" and base.extra == "prefixes":
            if a in prefix_table():
                return NUM(prefix_table()[a])
        if base.kind in ("expr", "any") and a in ("real", "imag"):
            return base
        if base.kind == "func" and a in ("display_name", "display_latex", "name"):
            return Val("str")
        if base.kind == "unknown":
            return base
        return UNKNOWN(f"attribute .{a} of {base.kind}")

    def subscript(self, n: ast.Subscript) -> Val:
        v = self.ev(n.value)
        idx = n.slice
        if v.kind == "indexed":
            self.ev(idx)
            return EXPR(v.dim)
        if v.kind == "any":
            return ANY
        if v.kind == "seq":
            k = _int_lit(idx)
            if k is not None and -len(v.extra) <= k < len(v.extra):
                return v.extra[k]
            return UNKNOWN("sequence index")
        if v.kind == "matrix":
            rows = v.extra
            if isinstance(idx, ast.Tuple) and len(idx.elts) == 2:
                i, j = _int_lit(idx.elts[0]), _int_lit(idx.elts[1])
                if i is not None and j is not None:
                    try:
                        return rows[i][j]
                    except IndexError:
                        return UNKNOWN("matrix index")
            k = _int_lit(idx)
            if k is not None:
                flat = [x for r in rows for x in r]
                if -len(flat) <= k < len(flat):
                    return flat[k]
            return UNKNOWN("matrix index")
        if v.kind == "solutions":
            if v.extra["dict"]:
                return Val("soldict")
            t = v.extra["target"]
            if t.kind in ("expr", "any"):
                return self.strip_num(t)
            return UNKNOWN("solution of a system / unknown target")
        if v.kind == "soldict":
            k = self.ev(idx)
            return self.strip_num(k) if k.kind in ("expr", "any") else UNKNOWN("solution dictionary key")
        if v.kind == "dict":
            return UNKNOWN("dict lookup")
        if v.kind == "unknown":
            return v
        return UNKNOWN(f"subscript of {v.kind}")

    # -------------------------------------------------- arithmetic
    def unify(self, a: Val, b: Val, node: ast.AST, rule: str, what: str) -> Val:
        if a.kind == "unknown":
            return a
        if b.kind == "unknown":
            return b
        if a.kind == "any":
            return b
        if b.kind == "any":
            return a
        if a.kind == "matrix" and b.kind == "matrix":
            ra, rb = a.extra, b.extra
            if len(ra) != len(rb) or any(len(x) != len(y) for x, y in zip(ra, rb)):
                return UNKNOWN("matrix shapes differ")
            return Val("matrix", extra=[[self.unify(x, y, node, rule, what) for x, y in zip(r1, r2)] for r1, r2 in zip(ra, rb)])
        if a.kind != "expr" or b.kind != "expr":
            return UNKNOWN(f"cannot compare {a.kind} with {b.kind}")
        if a.dim != b.dim:
            self.issue(rule, node, f"{what} have dimensions {a.dim} and {b.dim}", left=str(a.dim), right=str(b.dim))
            return UNKNOWN("dimension mismatch (reported)")
        return EXPR(a.dim)

    def as_dimobj(self, v: Val) -> Optional[Val]:
        if v.kind == "dimobj":
            return v
        if v.kind == "expr" and v.num is not None and v.dim.dimensionless and v.extra != "unit":
            return DIMOBJ(ONE)  # a pure number in dimension arithmetic: 1 / units.time
        return None

    def binop(self, op: ast.operator, l: Val, r: Val, n: ast.AST) -> Val:
        if l.kind == "dimobj" or r.kind == "dimobj":
            ld, rd = self.as_dimobj(l), self.as_dimobj(r)
            if isinstance(op, ast.Pow) and l.kind == "dimobj":
                if l.extra == "any":
                    return l
                if r.kind == "expr" and isinstance(r.num, Fraction):
                    return DIMOBJ(l.dim**r.num)
                if r.kind == "any" and r.num == 0:
                    return DIMOBJ(ONE)
                return UNKNOWN("dimension to a non-rational power")
            if ld is None or rd is None:
                if l.kind == "unknown" or r.kind == "unknown":
                    return l if l.kind == "unknown" else r
                return UNKNOWN(f"dimension arithmetic with {l.kind}/{r.kind}")
            if ld.extra == "any" or rd.extra == "any":
                return DIMOBJ(None, any_=True)
            if isinstance(op, ast.Mult):
                return DIMOBJ(ld.dim * rd.dim)
            if isinstance(op, ast.Div):
                return DIMOBJ(ld.dim / rd.dim)
            return UNKNOWN("dimension arithmetic")
        if isinstance(op, (ast.Add, ast.Sub)):
            if l.kind == "seq" and r.kind == "seq" and isinstance(op, ast.Add):
                return Val("seq", extra=l.extra + r.extra)
            if l.kind == "any" and r.kind == "any" and l.num is not None and r.num is not None:
                return ZERO
            res = self.unify(l, r, n, "H2", "added/subtracted terms")
            if res.kind == "expr" and l.kind == "expr" and r.kind == "expr" and l.num is not None and r.num is not None:
                num = num_add(l.num, r.num if isinstance(op, ast.Add) else num_mul(Fraction(-1), r.num))
                if num == 0:
                    return ZERO
                return Val("expr", res.dim, num=num)
            if res.kind == "expr" and ((l.kind == "any") != (r.kind == "any")):
                other = r if l.kind == "any" else l
                zero = l if l.kind == "any" else r
                if zero.num == 0 and other.num is not None:
                    return Val("expr", other.dim, num=other.num if (l.kind == "any" or isinstance(op, ast.Add)) else other.num)
            return res
        if isinstance(op, (ast.Mult, ast.Div, ast.MatMult)):
            if l.kind == "matrix" or r.kind == "matrix":
                return self.matmul(op, l, r, n)
            if l.kind == "unknown":
                return l
            if r.kind == "unknown":
                return r
            if isinstance(op, ast.Mult) and ((l.kind == "any" and l.num == 0) or (r.kind == "any" and r.num == 0)):
                return ZERO
            if isinstance(op, ast.Div) and l.kind == "any" and l.num == 0:
                return ZERO
            if l.kind == "any" or r.kind == "any":
                return ANY
            if l.kind != "expr" or r.kind != "expr":
                return UNKNOWN(f"product of {l.kind} and {r.kind}")
            d = l.dim / r.dim if isinstance(op, ast.Div) else l.dim * r.dim
            num = None
            if l.num is not None and r.num is not None:
                num = num_div(l.num, r.num) if isinstance(op, ast.Div) else num_mul(l.num, r.num)
            extra = "unit" if (l.extra == "unit" or r.extra == "unit") else None
            return Val("expr", d, num=num, extra=extra)
        if isinstance(op, ast.Pow):
            return self.pow(l, r, n)
        if isinstance(op, ast.Mod):
            return UNKNOWN("modulo")
        return UNKNOWN("binary operator")

    def matmul(self, op: ast.operator, l: Val, r: Val, n: ast.AST) -> Val:
        if isinstance(op, ast.Div):
            if l.kind == "matrix" and r.kind in ("expr", "any"):
                return Val("matrix", extra=[[self.binop(op, x, r, n) for x in row] for row in l.extra])
            return UNKNOWN("division by matrix")
        if l.kind == "matrix" and r.kind == "matrix":
            A, B = l.extra, r.extra
            if not A or not B or len(A[0]) != len(B):
                return UNKNOWN("matrix shapes")
            out = []
            for i in range(len(A)):
                row = []
                for j in range(len(B[0])):
                    acc: Optional[Val] = None
                    for k in range(len(B)):
                        t = self.binop(ast.Mult(), A[i][k], B[k][j], n)
                        acc = t if acc is None else self.unify(acc, t, n, "H2", "terms of a matrix product entry")
                    row.append(acc or UNKNOWN("empty"))
                out.append(row)
            return Val("matrix", extra=out)
        m, s = (l, r) if l.kind == "matrix" else (r, l)
        if s.kind in ("expr", "any"):
            return Val("matrix", extra=[[self.binop(ast.Mult(), x, s, n) for x in row] for row in m.extra])
        if s.kind == "unknown":
            return s
        return UNKNOWN(f"matrix times {s.kind}")

    def pow(self, l: Val, r: Val, n: ast.AST) -> Val:
        if r.kind == "expr" and not r.dim.dimensionless:
            self.issue("H3", n, f"exponent has dimension {r.dim}", exponent=str(r.dim))
            return UNKNOWN("dimensional exponent (reported)")
        if r.kind == "unknown":
            return UNKNOWN("exponent unknown: " + r.why)
        if l.kind == "unknown":
            return l
        if l.kind == "any":
            return ANY
        if l.kind == "matrix":
            return UNKNOWN("matrix power")
        if l.kind == "dimobj":
            if l.extra == "any":
                return l
            if r.kind in ("expr", "any") and isinstance(r.num, Fraction):
                return DIMOBJ(l.dim**r.num)
            return UNKNOWN("dimension to a non-rational power")
        if l.kind != "expr":
            return UNKNOWN(f"power of {l.kind}")
        rnum = r.num if r.kind in ("expr", "any") else None
        if l.dim.dimensionless:
            num = None
            if l.num is not None and rnum is not None:
                try:
                    num = num_pow(l.num, rnum)
                except (OverflowError, ZeroDivisionError):
                    num = None
            return Val("expr", ONE, num=num)
        if isinstance(rnum, Fraction):
            num = None
            if l.num is not None:
                try:
                    num = num_pow(l.num, rnum)
                except (OverflowError, ZeroDivisionError):
                    num = None
            return Val("expr", l.dim**rnum, num=num, extra=l.extra)
        if isinstance(rnum, float) and rnum == int(rnum):
            return Val("expr", l.dim**Fraction(int(rnum)))
        if isinstance(rnum, float):
            return Val("expr", l.dim**Fraction(rnum).limit_denominator(1000))
        return UNKNOWN("dimensional base with symbolic exponent")

    # -------------------------------------------------- calls
    def dim_arg(self, node: Optional[ast.AST]) -> Val:
        if node is None:
            return DIMOBJ(ONE)
        v = self.ev(node)
        d = self.as_dimobj(v)
        if d is not None:
            return d
        if v.kind == "unknown":
            return v
        if v.kind == "expr" and v.extra == "unit":
            return UNKNOWN("a unit used where a dimension is expected")
        return UNKNOWN(f"dimension argument is {v.kind}")

    def mk(self, dimval: Val, kind: str, **extra: Any) -> Val:
        if dimval.kind == "unknown":
            return dimval
        if dimval.extra == "any":
            return Val("any", extra="symbol")
        return Val(kind, dimval.dim, extra=extra or None)

    def positional_or_kw(self, n: ast.Call, pos: int, name: str) -> Optional[ast.AST]:
        if len(n.args) > pos and not any(isinstance(a, ast.Starred) for a in n.args[:pos + 1]):
            return n.args[pos]
        for k in n.keywords:
            if k.arg == name:
                return k.value
        return None

    def call(self, n: ast.Call) -> Val:
        f = n.func
        if isinstance(f, ast.Attribute):
            base = self.ev(f.value)
            if base.kind != "module":
                return self.method_call(n, f, base)
            fv = self.attr(f)
        else:
            fv = self.ev(f)
        args = n.args
        if any(isinstance(a, ast.Starred) for a in args):
            for a in args:
                if not isinstance(a, ast.Starred):
                    self.ev(a)
            if fv.kind == "func":
                return EXPR(fv.dim)
            return UNKNOWN("call with *args")
        k = fv.kind
        if k == "func":
            for a in args:
                self.ev(a)
            self.env.apps.append(Application(n, fv, len(args), norm(f, 80), self.stmt))
            return EXPR(fv.dim)
        if k == "any" and fv.extra == "symbol":
            return ANY
        if k == "pyclass" or k == "pyfunc":
            qual = fv.extra if k == "pyclass" else fv.extra[0]
            r = self.lib_call(qual, n)
            if r is not None:
                return r
            for a in args:
                self.ev(a)
            for kw in n.keywords:
                self.ev(kw.value)
            if k == "pyfunc":
                return self.inline(fv, n)
            return Val("object", extra=qual)
        if k == "sympy":
            return self.sympy_call(fv.extra, n)
        if k == "builtin":
            return self.builtin_call(fv.extra, n)
        if k == "lambda":
            return UNKNOWN("lambda call")
        for a in args:
            self.ev(a)
        if k == "unknown":
            return fv
        return UNKNOWN(f"call of {k}")

    def lib_call(self, qual: str, n: ast.Call) -> Optional[Val]:
        args = n.args
        if qual == C_SYMBOL:
            v = self.mk(self.dim_arg(self.positional_or_kw(n, 1, "dimension")), "expr")
            if v.kind in ("expr", "any"):
                v = Val(v.kind, v.dim, v.num, v.extra, v.why)
                v.ident = f"{self.env.name}:{n.lineno}:{n.col_offset}"
                v.display = _lit_str(self.positional_or_kw(n, 0, "display_symbol"))
            return v
        if qual == C_FUNCTION:
            argl = self.positional_or_kw(n, 1, "arguments")
            nargs = len(argl.elts) if isinstance(argl, (ast.List, ast.Tuple)) and not any(isinstance(e, ast.Starred) for e in argl.elts) else None
            if argl is not None:
                self.ev(argl)
            v = self.mk(self.dim_arg(self.positional_or_kw(n, 2, "dimension")), "func")
            if v.kind == "func":
                v.extra = {"nargs": nargs, "decl": n, "variadic": argl is None or (isinstance(argl, ast.Constant) and argl.value is None)}
            return v
        if qual == C_INDEXED:
            return self.mk(self.dim_arg(self.positional_or_kw(n, 2, "dimension")), "indexed")
        if qual in (C_CLONE_SYM, C_CLONE_FUN, C_CLONE_IDX):
            if not args:
                return UNKNOWN("clone without source")
            src = self.ev(args[0])
            kind = {C_CLONE_SYM: "expr", C_CLONE_FUN: "func", C_CLONE_IDX: "indexed"}[qual]
            extra = None
            if qual == C_CLONE_FUN:
                argl = self.positional_or_kw(n, 1, "arguments")
                nargs = len(argl.elts) if isinstance(argl, (ast.List, ast.Tuple)) and not any(isinstance(e, ast.Starred) for e in argl.elts) else None
                if argl is not None:
                    self.ev(argl)
                extra = {"nargs": nargs, "decl": n, "variadic": argl is None or (isinstance(argl, ast.Constant) and argl.value is None)}
            if src.kind in ("expr", "func", "indexed", "any"):
                v = Val(kind, src.dim, extra=extra) if src.kind != "any" else Val("any", extra="symbol")
                v.ident = f"{self.env.name}:{n.lineno}:{n.col_offset}"
                ds, sub = self.positional_or_kw(n, 99, "display_symbol"), self.positional_or_kw(n, 99, "subscript")
                base = _lit_str(ds) if ds is not None else src.display
                if base is not None and (sub is None or _lit_str(sub) is not None):
                    v.display = base + (f"_{_lit_str(sub)}" if sub is not None and _lit_str(sub) else "")
                return v
            return UNKNOWN(f"clone of {src.kind}: {src.why}")
        if qual in SYMBOLIC_WRAPPERS:
            return self.strip_num(self.ev(args[0])) if args else UNKNOWN("wrapper without argument")
        if qual == C_QUANTITY:
            dn = self.positional_or_kw(n, 99, "dimension")
            inner = self.ev(args[0]) if args else NUM(Fraction(1))
            if dn is not None:
                d = self.dim_arg(dn)
                if d.kind == "unknown":
                    return d
                if d.extra == "any":
                    return ANY
                if inner.kind == "any":
                    return inner
                return Val("expr", d.dim, num=inner.num if inner.kind == "expr" else None, extra="quantity")
            if inner.kind == "expr":
                return Val("expr", inner.dim, num=inner.num, extra="quantity")
            return inner
        if qual == C_MATRIX:
            return self.matrix_literal(n)
        if qual in (C_INDEXED_SUM, ):
            v = self.ev(args[0]) if args else UNKNOWN("noargs")
            for a in args[1:]:
                self.ev(a)
            return self.strip_num(v)
        if qual in (C_INDEXED_PRODUCT, ):
            v = self.ev(args[0]) if args else UNKNOWN("noargs")
            if v.kind == "expr" and v.dim.dimensionless:
                return NUM()
            return UNKNOWN("indexed product of dimensional factor")
        if qual == Q + "dimensions.dimensions.AnyDimension":
            return DIMOBJ(None, any_=True)
        if qual == Q + "convert.evaluate_expression":
            return self.strip_num(self.ev(args[0])) if args else UNKNOWN("noargs")
        return None

    def strip_num(self, v: Val) -> Val:
        if v.kind == "expr":
            return EXPR(v.dim)
        return v

    def matrix_literal(self, n: ast.Call) -> Val:
        if not n.args:
            return UNKNOWN("matrix()")
        a = n.args[0]
        if isinstance(a, (ast.List, ast.Tuple)):
            rows = []
            for r in a.elts:
                if isinstance(r, (ast.List, ast.Tuple)):
                    rows.append([self.ev(x) for x in r.elts])
                else:
                    rows.append([self.ev(r)])
            if rows and all(len(r) == len(rows[0]) for r in rows):
                return Val("matrix", extra=rows)
        self.ev(a)
        return UNKNOWN("matrix literal not understood")

    def inline(self, fv: Val, n: ast.Call) -> Val:
        """A module-level python helper: inline when its body is `return <expr>` (bound 1)."""
        qual, node, modname = fv.extra
        if self.inline_depth >= 1 or self.w.depth > 40:
            return UNKNOWN("python helper call (inlining bound)")
        body = [s for s in node.body if not (isinstance(s, ast.Expr) and isinstance(s.value, ast.Constant))]
        if len(body) != 1 or not isinstance(body[0], ast.Return) or body[0].value is None:
            return UNKNOWN("python helper call")
        params = node.args
        if params.vararg or params.kwarg or params.kwonlyargs or len(n.args) > len(params.args) or n.keywords:
            return UNKNOWN("python helper call (signature)")
        if len(n.args) != len(params.args):
            return UNKNOWN("python helper call (defaults)")
        local = {p.arg: self.ev(a) for p, a in zip(params.args, n.args)}
        env = self.w.env(modname)
        sub = Interp(self.w, env, local)
        sub.inline_depth = self.inline_depth + 1
        # issues found inside the helper body belong to the helper's module, not to this call: evaluate on a scratch env
        scratch = ModEnv(env.mod, env.name)
        scratch.names = env.names
        sub.env = scratch
        return sub.ev(body[0].value)

    def builtin_call(self, name: str, n: ast.Call) -> Val:
        args = [self.ev(a) for a in n.args]
        if name in ("abs", "float", "complex") and args:
            return args[0] if name == "abs" else self.strip_num(args[0])
        if name == "int" and args:
            return args[0]
        if name in ("min", "max") and args:
            vs = args[0].extra if (len(args) == 1 and args[0].kind == "seq") else args
            r = vs[0] if vs else UNKNOWN("empty")
            for v in vs[1:]:
                r = self.unify(r, v, n, "H2", f"arguments of {name}")
            return self.strip_num(r)
        if name == "sum" and args:
            if args[0].kind == "seq" and args[0].extra:
                r = args[0].extra[0]
                for v in args[0].extra[1:]:
                    r = self.unify(r, v, n, "H2", "summed terms")
                return self.strip_num(r)
            return UNKNOWN("sum of non-literal")
        if name in ("list", "tuple") and args and args[0].kind == "seq":
            return args[0]
        if name == "pow" and len(args) == 2:
            return self.pow(args[0], args[1], n)
        return UNKNOWN(f"builtin {name}")

    def sympy_call(self, fname: str, n: ast.Call) -> Val:
        args = n.args
        if fname in RELATIONS:
            if len(args) < 2:
                return UNKNOWN("relation arity")
            l, r = self.ev(args[0]), self.ev(args[1])
            res = self.unify(l, r, n, "H1", f"the two sides of {fname}")
            return Val("eq", extra=(l, r, res, fname))
        if fname == "Dimension":
            if args:
                v = self.ev(args[0])
                d = self.as_dimobj(v)
                if d is not None:
                    return d
                if v.kind == "any":
                    return DIMOBJ(None, any_=True)
            return UNKNOWN("Dimension(...)")
        if fname in ("Symbol", "symbols", "Dummy", "Wild", "Idx", "IndexedBase", "MatrixSymbol", "Function", "SymSymbol", "SymFunction"):
            for a in args:
                self.ev(a)
            return UNKNOWN("plain SymPy symbol (no declared dimension)")
        if fname == "Rational":
            vals = [self.ev(a) for a in args]
            if len(vals) == 2 and all(v.kind in ("expr", "any") and isinstance(v.num, Fraction) for v in vals) and vals[1].num != 0:
                q = vals[0].num / vals[1].num
                return ZERO if q == 0 else NUM(q)
            if len(vals) == 1 and vals[0].kind in ("expr", "any") and vals[0].num is not None:
                return vals[0]
            return NUM()
        if fname in ("Integer", "Float"):
            v = self.ev(args[0]) if args else NUM()
            return v if v.kind in ("expr", "any") else NUM()
        if fname == "sqrt":
            return self.pow(self.ev(args[0]), NUM(Fraction(1, 2)), n) if args else UNKNOWN("sqrt()")
        if fname == "cbrt":
            return self.pow(self.ev(args[0]), NUM(Fraction(1, 3)), n) if args else UNKNOWN("cbrt()")
        if fname in ("root", "real_root"):
            if len(args) >= 2:
                k = self.ev(args[1])
                if k.kind == "expr" and isinstance(k.num, Fraction) and k.num != 0:
                    return self.pow(self.ev(args[0]), NUM(1 / k.num), n)
            return UNKNOWN("root with symbolic index")
        if fname == "Pow":
            return self.pow(self.ev(args[0]), self.ev(args[1]), n) if len(args) >= 2 else UNKNOWN("Pow arity")
        if fname in DIMLESS_ARG_FUNCS:
            for a in args:
                v = self.ev(a)
                if v.kind == "expr" and not v.dim.dimensionless:
                    self.issue("H4", n, f"argument of {fname} has dimension {v.dim}", function=fname, argument=str(v.dim))
            return NUM()
        if fname in NUMERIC_FUNCS:
            for a in args:
                self.ev(a)
            return NUM()
        if fname in SAME_DIM_FUNCS:
            if not args:
                return UNKNOWN("noargs")
            v = self.ev(args[0])
            for a in args[1:]:
                self.ev(a)
            for kw in n.keywords:
                self.ev(kw.value)
            return v if fname in ("S", "sympify", "abs", "Abs") else self.strip_num(v)
        if fname in ("Derivative", "diff"):
            return self.derivative(self.ev(args[0]), args[1:], n) if args else UNKNOWN("noargs")
        if fname in ("Integral", "integrate"):
            return self.integral(self.ev(args[0]), args[1:], n) if args else UNKNOWN("noargs")
        if fname in ("solve", "dsolve", "solveset", "nsolve"):
            vals = [self.ev(a) for a in args]
            for kw in n.keywords:
                self.ev(kw.value)
            as_dict = any(kw.arg == "dict" and isinstance(kw.value, ast.Constant) and kw.value.value is True for kw in n.keywords)
            target = vals[1] if len(vals) >= 2 else UNKNOWN("solve without target")
            if fname == "dsolve":
                # dsolve(eq, f(x)) returns Eq(f(x), solution)
                if target.kind in ("expr", "any"):
                    t = self.strip_num(target)
                    return Val("eq", extra=(t, t, t, "Eq"))
                return UNKNOWN("dsolve")
            return Val("solutions", extra={"dict": as_dict, "target": target})
        if fname in ("Sum", "summation"):
            v = self.ev(args[0]) if args else UNKNOWN("noargs")
            for a in args[1:]:
                self.ev(a)
            return self.strip_num(v)
        if fname in ("Product", "product"):
            v = self.ev(args[0]) if args else UNKNOWN("noargs")
            return NUM() if (v.kind == "expr" and v.dim.dimensionless) else UNKNOWN("product of dimensional factor")
        if fname in ("Min", "Max"):
            vs = [self.ev(a) for a in args]
            if not vs:
                return UNKNOWN("noargs")
            r = vs[0]
            for v in vs[1:]:
                r = self.unify(r, v, n, "H2", f"arguments of {fname}")
            return self.strip_num(r)
        if fname == "Piecewise":
            r: Optional[Val] = None
            for a in args:
                if isinstance(a, ast.Tuple) and len(a.elts) == 2:
                    v = self.ev(a.elts[0])
                    self.ev(a.elts[1])
                    r = v if r is None else self.unify(r, v, n, "H2", "Piecewise branches")
                else:
                    self.ev(a)
                    return UNKNOWN("Piecewise branch not a literal pair")
            return self.strip_num(r) if r is not None else UNKNOWN("Piecewise()")
        if fname == "Mul":
            r = NUM(Fraction(1))
            for a in args:
                r = self.binop(ast.Mult(), r, self.ev(a), n)
            return r
        if fname == "Add":
            r2: Optional[Val] = None
            for a in args:
                v = self.ev(a)
                r2 = v if r2 is None else self.unify(r2, v, n, "H2", "Add arguments")
            return self.strip_num(r2) if r2 is not None else UNKNOWN("Add()")
        if fname in ("Matrix", "ImmutableMatrix", "SymMatrix"):
            return self.matrix_literal(n)
        if fname == "O":
            for a in args:
                self.ev(a)
            return ANY
        if fname in ("Interval", "Tuple"):
            return Val("seq", extra=[self.ev(a) for a in args])
        if fname in ("And", "Or", "Not"):
            for a in args:
                self.ev(a)
            return Val("bool")
        if fname == "SymQuantity":
            return UNKNOWN("raw SymPy quantity")
        if fname == "exp_polar":
            return NUM()
        if fname == "evaluate":
            return Val("object", extra="evaluate")
        if fname == "Subs":
            return self.strip_num(self.ev(args[0])) if args else UNKNOWN("noargs")
        if fname == "Limit" or fname == "limit":
            return self.strip_num(self.ev(args[0])) if args else UNKNOWN("noargs")
        if fname == "Mod":
            vs = [self.ev(a) for a in args]
            return self.strip_num(vs[0]) if vs else UNKNOWN("noargs")
        for a in args:
            self.ev(a)
        for kw in n.keywords:
            self.ev(kw.value)
        return UNKNOWN(f"sympy.{fname}(...)")

    def derivative(self, fval: Val, rest: list, n: ast.AST) -> Val:
        vars_: list[tuple[Val, Optional[Number]]] = []
        for a in rest:
            if isinstance(a, ast.Tuple) and len(a.elts) == 2:
                v = self.ev(a.elts[0])
                k = self.ev(a.elts[1])
                vars_.append((v, k.num if k.kind in ("expr", "any") else None))
                continue
            v = self.ev(a)
            if v.kind in ("expr", "any") and v.num is not None and v.extra not in ("unit", "quantity") and vars_ \
                    and (v.kind == "any" or v.dim.dimensionless) and isinstance(a, ast.Constant):
                pv, _ = vars_[-1]
                vars_[-1] = (pv, v.num)
                continue
            vars_.append((v, Fraction(1)))
        if fval.kind == "unknown":
            return fval
        if fval.kind == "any":
            return ANY
        if fval.kind == "matrix":
            return Val("matrix", extra=[[self._deriv_dim(x, vars_) for x in row] for row in fval.extra])
        return self._deriv_dim(fval, vars_)

    def _deriv_dim(self, fval: Val, vars_: list) -> Val:
        if fval.kind == "any":
            return ANY
        if fval.kind != "expr":
            return fval if fval.kind == "unknown" else UNKNOWN(f"derivative of {fval.kind}")
        dim = fval.dim
        for v, k in vars_:
            if v.kind == "unknown":
                return v
            if v.kind != "expr" or not isinstance(k, Fraction):
                return UNKNOWN(f"derivative variable is {v.kind}")
            dim = dim / (v.dim**k)
        return EXPR(dim)

    def integral(self, fval: Val, rest: list, n: ast.AST) -> Val:
        dims = []
        for a in rest:
            if isinstance(a, ast.Tuple) and a.elts:
                v = self.ev(a.elts[0])
                for lim in a.elts[1:]:
                    lv = self.ev(lim)
                    if v.kind == "expr":
                        self.unify(v, lv, n, "H2", "integration variable and its limit")
            else:
                v = self.ev(a)
            dims.append(v)
        if fval.kind == "unknown":
            return fval
        if fval.kind == "any":
            return ANY
        if fval.kind != "expr":
            return UNKNOWN(f"integral of {fval.kind}")
        dim = fval.dim
        for v in dims:
            if v.kind == "unknown":
                return v
            if v.kind != "expr":
                return UNKNOWN(f"integration variable is {v.kind}")
            dim = dim * v.dim
        return EXPR(dim)

    def method_call(self, n: ast.Call, f: ast.Attribute, base: Val) -> Val:
        a = f.attr
        if a == "diff":
            return self.derivative(base, n.args, n)
        if a == "integrate" and base.kind in ("expr", "any", "unknown"):
            return self.integral(base, n.args, n)
        for x in n.args:
            self.ev(x)
        for kw in n.keywords:
            self.ev(kw.value)
        if a in SAME_DIM_METHODS:
            if base.kind == "eq":
                return Val("eq", extra=base.extra) if a not in ("subs", "replace", "xreplace") else \
                    Val("eq", extra=(self.strip_num(base.extra[0]), self.strip_num(base.extra[1]), base.extra[2], base.extra[3]))
            if a in ("subs", "replace", "xreplace", "limit", "series"):
                return self.strip_num(base) if base.kind in ("expr", "any", "matrix", "unknown") else UNKNOWN(f".{a} on {base.kind}")
            return base
        if base.kind == "matrix":
            if a in ("det", ):
                return UNKNOWN("determinant")
            if a == "inv":
                return UNKNOWN("matrix inverse")
            if a == "norm":
                flat = [x for r in base.extra for x in r]
                r0 = flat[0]
                for v in flat[1:]:
                    r0 = self.unify(r0, v, n, "H2", "components under a norm")
                return self.strip_num(r0)
        if base.kind == "unknown":
            return base
        if a in ("as_real_imag", ):
            return Val("seq", extra=[base, base])
        if a in ("args", ):
            return UNKNOWN("args")
        return UNKNOWN(f"method .{a} of {base.kind}")


def _targets_of(s: ast.stmt) -> list[str]:
    out = []
    if isinstance(s, ast.Assign):
        for t in s.targets:
            for n in ast.walk(t):
                if isinstance(n, ast.Name):
                    out.append(n.id)
    elif isinstance(s, (ast.AnnAssign, ast.AugAssign)) and isinstance(s.target, ast.Name):
        out.append(s.target.id)
    elif isinstance(s, (ast.FunctionDef, ast.ClassDef)):
        out.append(s.name)
    return out


def _int_lit(n: ast.AST) -> Optional[int]:
    if isinstance(n, ast.Constant) and isinstance(n.value, int) and not isinstance(n.value, bool):
        return n.value
    if isinstance(n, ast.UnaryOp) and isinstance(n.op, ast.USub) and isinstance(n.operand, ast.Constant) \
            and isinstance(n.operand.value, int):
        return -n.operand.value
    return None


def _is_dimensional(v: Val) -> bool:
    return v.kind in ("expr", "any")


# ---------------------------------------------------------------------------------------------
# helpers used by rules


def describe(v: Val) -> str:
    if v.kind == "expr":
        return str(v.dim)
    if v.kind == "eq":
        return f"{describe(v.extra[0])} {v.extra[3]} {describe(v.extra[1])}"
    return repr(v)


def guard_dimension(v: Val) -> Optional[object]:
    """Dimension that a validate_input/validate_output argument stands for:
    Dim, the string 'any', a tuple of those (sequence guards), or None when it is not a dimension-bearing value."""
    if v.kind in ("expr", "func", "indexed"):
        return v.dim
    if v.kind == "any":
        return "any"
    if v.kind == "dimobj":
        return "any" if v.extra == "any" else v.dim
    if v.kind == "seq":
        items = [guard_dimension(x) for x in v.extra]
        if any(i is None for i in items):
            return None
        return tuple(items)
    return None
