"""Reads straight-line formula code (one branch of a function) from the repository's AST into E4 terms."""
from __future__ import annotations

import ast
from fractions import Fraction
from typing import Callable, Optional

from .core import AnalysisError, dotted, norm
from .alg import T, num, var, op

FUNCS1 = {"sin": "sin", "cos": "cos", "tan": "tan", "sqrt": "sqrt", "acos": "acos", "asin": "asin"}


class ExprReader:
    """env maps names to terms (T), python lists of terms, or opaque markers handled by `special`."""

    def __init__(self, env: Optional[dict] = None, special: Optional[Callable] = None, where: str = "", helpers: Optional[dict] = None):
        self.env = dict(env or {})
        self.special = special
        self.where = where
        self.helpers = helpers or {}  # module-level straight-line functions that may be inlined: name -> FunctionDef
        self.depth = 0

    def fail(self, n: ast.AST, why: str):
        raise AnalysisError(f"formula reader ({self.where}): cannot read `{norm(n, 80)}` at line {getattr(n, 'lineno', '?')}: {why}")

    def ev(self, n: ast.AST):
        if self.special is not None:
            r = self.special(self, n)
            if r is not None:
                return r
        if isinstance(n, ast.Constant) and isinstance(n.value, bool):
            return num(1 if n.value else 0)
        if isinstance(n, ast.Constant) and isinstance(n.value, (int, float)) and not isinstance(n.value, bool):
            return num(Fraction(n.value) if isinstance(n.value, int) else Fraction(str(n.value)))
        if isinstance(n, ast.Name):
            if n.id in self.env:
                return self.env[n.id]
            if n.id == "pi":
                return T("pi")
            self.fail(n, "unbound name")
        if isinstance(n, ast.Attribute):
            d = dotted(n)
            if d == "S.Zero":
                return num(0)
            if d == "S.One":
                return num(1)
            if d == "S.Half":
                return num(Fraction(1, 2))
            self.fail(n, "attribute")
        if isinstance(n, ast.UnaryOp) and isinstance(n.op, ast.USub):
            return op("neg", self.term(n.operand))
        if isinstance(n, ast.UnaryOp) and isinstance(n.op, ast.UAdd):
            return self.term(n.operand)
        if isinstance(n, ast.BinOp):
            l, r = self.ev(n.left), self.ev(n.right)
            if isinstance(l, list) or isinstance(r, list):
                return self.list_op(n, l, r)
            o = {ast.Add: "add", ast.Sub: "sub", ast.Mult: "mul", ast.Div: "div", ast.Pow: "pow", ast.Mod: "mod", ast.BitAnd: "and", ast.BitOr: "or"}.get(type(n.op))
            if o is None:
                self.fail(n, "operator")
            return op(o, l, r)
        if isinstance(n, (ast.List, ast.Tuple)):
            return [self.ev(e) for e in n.elts]
        if isinstance(n, ast.Subscript):
            base = self.ev(n.value)
            if isinstance(base, list):
                k = n.slice
                if isinstance(k, ast.Constant) and isinstance(k.value, int):
                    if -len(base) <= k.value < len(base):
                        return base[k.value]
                    self.fail(n, "index out of range")
                if isinstance(k, ast.Name) and isinstance(self.env.get(k.id), int):
                    return base[self.env[k.id]]
            self.fail(n, "subscript")
        if isinstance(n, ast.Call):
            f = dotted(n.func) or ""
            last = f.split(".")[-1]
            if last in FUNCS1 and len(n.args) == 1:
                return op(FUNCS1[last], self.term(n.args[0]))
            if last == "atan2" and len(n.args) == 2:
                return op("atan2", self.term(n.args[0]), self.term(n.args[1]))
            if last in ("diff", "Derivative") and len(n.args) >= 2 and not isinstance(n.func, ast.Attribute):
                return op("diff", self.term(n.args[0]), *[self.term(a) for a in n.args[1:]])
            if last == "diff" and isinstance(n.func, ast.Attribute) and len(n.args) >= 1:
                return op("diff", self.term(n.func.value), *[self.term(a) for a in n.args])
            if last in ("sympify", "S", "simplify", "list", "tuple") and len(n.args) >= 1:
                return self.ev(n.args[0])
            if last in ("Integer", "Float", "Rational") and len(n.args) == 1:
                a = self.term(n.args[0])
                if a.op == "num":
                    return a
            if last == "Rational" and len(n.args) == 2:
                a, b = self.term(n.args[0]), self.term(n.args[1])
                if a.op == "num" and b.op == "num":
                    return num(a.val / b.val)
            if last == "Mod" and len(n.args) == 2:
                return op("mod", self.term(n.args[0]), self.term(n.args[1]))
            if last in ("Eq", "Ne", "Gt", "Ge", "Lt", "Le") and len(n.args) == 2:
                return op(last.lower(), self.term(n.args[0]), self.term(n.args[1]))
            if last in ("And", "Or") and n.args:
                return op(last.lower(), *[self.term(a) for a in n.args])
            if last == "Piecewise" and n.args and all(isinstance(a, ast.Tuple) and len(a.elts) == 2 for a in n.args):
                flat = []
                for a in n.args:
                    flat += [self.term(a.elts[0]), self.term(a.elts[1])]
                return op("piecewise", *flat)
            if isinstance(n.func, ast.Name) and n.func.id in self.helpers and not n.keywords and self.depth < 4:
                fn = self.helpers[n.func.id]
                params = [a.arg for a in fn.args.args]
                if len(params) == len(n.args) and not fn.args.vararg and not fn.args.kwarg:
                    import copy
                    sub = copy.copy(self)
                    sub.env = dict(zip(params, [self.ev(a) for a in n.args]))
                    sub.where = f"{self.where}>{fn.name}"
                    sub.depth = self.depth + 1
                    r = sub.run([x for x in fn.body if not (isinstance(x, ast.Expr) and isinstance(x.value, ast.Constant))])
                    if r is not None:
                        return r
            self.fail(n, "call outside the decidable class")
        if isinstance(n, ast.Compare) and len(n.ops) == 1:
            o = {ast.Gt: "gt", ast.GtE: "ge", ast.Lt: "lt", ast.LtE: "le"}.get(type(n.ops[0]))
            if o:
                return op(o, self.term(n.left), self.term(n.comparators[0]))
        if isinstance(n, ast.BoolOp):
            return op("and" if isinstance(n.op, ast.And) else "or", *[self.term(v) for v in n.values])
        self.fail(n, type(n).__name__)

    def term(self, n: ast.AST) -> T:
        r = self.ev(n)
        if not isinstance(r, T):
            self.fail(n, "expected a scalar term")
        return r

    def list_op(self, n: ast.BinOp, l, r):
        if isinstance(n.op, ast.Add) and isinstance(l, list) and isinstance(r, list):
            return l + r
        if isinstance(n.op, ast.Mult) and isinstance(l, list) and isinstance(r, int):
            return l * r
        self.fail(n, "list arithmetic")

    def run(self, body: list) -> Optional[object]:
        """Executes straight-line assignments; returns the value of the first `return`."""
        for s in body:
            if isinstance(s, ast.Assign) and len(s.targets) == 1:
                t = s.targets[0]
                v = self.ev(s.value)
                if isinstance(t, ast.Name):
                    self.env[t.id] = v
                elif isinstance(t, (ast.Tuple, ast.List)) and isinstance(v, list) and len(v) == len(t.elts) and all(isinstance(e, ast.Name) for e in t.elts):
                    for e, x in zip(t.elts, v):
                        self.env[e.id] = x
                else:
                    self.fail(s, "assignment shape")
            elif isinstance(s, ast.AnnAssign) and isinstance(s.target, ast.Name) and s.value is not None:
                self.env[s.target.id] = self.ev(s.value)
            elif isinstance(s, ast.Return):
                return self.ev(s.value) if s.value is not None else None
            elif isinstance(s, ast.Expr) and isinstance(s.value, ast.Constant):
                continue
            else:
                self.fail(s, "statement outside the straight-line class")
        return None


SYSTEMS = {"CARTESIAN": ("x", "y", "z"), "CYLINDRICAL": ("r", "theta", "z"), "SPHERICAL": ("r", "theta", "phi")}


def system_branches(fn: ast.FunctionDef, attr: str = "coord_system_type") -> dict[str, list]:
    """`if <...>.coord_system_type == CoordinateSystem.System.X:` blocks of a function -> {X: body}"""
    out: dict[str, list] = {}
    for s in fn.body:
        if isinstance(s, ast.If) and isinstance(s.test, ast.Compare) and len(s.test.ops) == 1 and isinstance(s.test.ops[0], ast.Eq):
            l, r = dotted(s.test.left) or "", dotted(s.test.comparators[0]) or ""
            for a, b in ((l, r), (r, l)):
                if a.endswith(attr) and b.split(".")[-1] in SYSTEMS and "System" in b:
                    out[b.split(".")[-1]] = s.body
    return out
